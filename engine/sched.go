package main

// Threads, scheduler, channels, sync primitives and the happens-before race
// monitor. Interpreted goroutines run on real goroutines but strictly one at
// a time (baton passing); every scheduling decision goes through chooseN so
// that the schedule is part of the replayable decision prefix.

import (
	"fmt"
	"go/types"
	"sync"

	"golang.org/x/tools/go/ssa"
)

type Thread struct {
	id      int
	name    string
	wake    chan struct{}
	done    bool
	pending *SyncOp
	vc      []int
	started bool
	segs    int
}

type chanCase struct {
	ch   *Chan
	send bool
	val  value
}

type SyncOp struct {
	kind    string
	obj     any
	enabled func() bool
	wq      bool
	// channel operations
	cases     []chanCase
	completed int // case index completed by a partner, -1 otherwise
	recvVal   value
	recvOk    bool
}

type Chan struct {
	id     int
	buf    []value
	cap    int
	closed bool
	elem   types.Type
	vc     []int
}

type mutexState struct {
	locked  bool
	owner   int
	vc      []int
	readers int
	pendW   int // number of writers that have announced themselves (RWMutex)
}

type condState struct {
	waiters []*condWaiter
	vc      []int
}

type condWaiter struct {
	t        *Thread
	signaled bool
}

type wgState struct {
	n  int64
	vc []int
}

type cellMeta struct {
	wT, wC int
	wPos   ssa.Instruction
	reads  map[int]int
	rPos   map[int]ssa.Instruction
}

type Sched struct {
	in      *Interp
	threads []*Thread
	cur     *Thread
	dead    bool
	wg      sync.WaitGroup
	endCh   chan pathEnd
	multi   bool
	mutexes map[*value]*mutexState
	pools   map[*value][]value // sync.Pool contents, keyed by the pool variable
	conds   map[*value]*condState
	wgs     map[*value]*wgState
	atomVC  map[any][]int
	cells   map[any]*cellMeta
	preempt int
	segs    int
	curPos  ssa.Instruction
	raceSeen map[string]bool
	sleep    map[int]bool
}

func newSched(in *Interp) *Sched {
	return &Sched{in: in, endCh: make(chan pathEnd, 64), mutexes: map[*value]*mutexState{}, pools: map[*value][]value{}, conds: map[*value]*condState{},
		wgs: map[*value]*wgState{}, atomVC: map[any][]int{}, cells: map[any]*cellMeta{}, raceSeen: map[string]bool{}}
}

func joinVC(a, b []int) []int {
	if len(b) > len(a) {
		na := make([]int, len(b))
		copy(na, a)
		a = na
	}
	for i, v := range b {
		if v > a[i] {
			a[i] = v
		}
	}
	return a
}

func (t *Thread) tick() {
	for len(t.vc) <= t.id {
		t.vc = append(t.vc, 0)
	}
	t.vc[t.id]++
}

// syncObj: acquire+release on a sync object's clock (over-approximates HB: never reports a false race)
func (s *Sched) syncObj(vc *[]int) {
	if !s.multi {
		return
	}
	t := s.cur
	t.vc = joinVC(t.vc, *vc)
	*vc = append([]int(nil), t.vc...)
	t.tick()
}
func (s *Sched) acquire(vc []int) {
	if s.multi {
		s.cur.vc = joinVC(s.cur.vc, vc)
	}
}
func (s *Sched) release(vc *[]int) {
	if !s.multi {
		return
	}
	*vc = joinVC(*vc, s.cur.vc)
	s.cur.tick()
}

// ---------------------------------------------------------------------------
// race monitor

func (s *Sched) meta(k any) *cellMeta {
	m := s.cells[k]
	if m == nil {
		m = &cellMeta{wT: -1}
		s.cells[k] = m
	}
	return m
}

func (s *Sched) noteRead(p *value)     { if s.multi { s.access(p, false) } }
func (s *Sched) noteWrite(p *value)    { if s.multi { s.access(p, true) } }
func (s *Sched) noteReadObj(o any)     { if s.multi { s.access(o, false) } }
func (s *Sched) noteWriteObj(o any)    { if s.multi { s.access(o, true) } }

func (s *Sched) clockOf(t *Thread, u int) int {
	if u < len(t.vc) {
		return t.vc[u]
	}
	return 0
}

func (s *Sched) access(k any, write bool) {
	t := s.cur
	if t == nil {
		return
	}
	m := s.meta(k)
	if m.wT >= 0 && m.wT != t.id && m.wC > s.clockOf(t, m.wT) {
		s.race(m.wPos, "write", write)
	}
	if write {
		for u, c := range m.reads {
			if u != t.id && c > s.clockOf(t, u) {
				s.race(m.rPos[u], "read", write)
			}
		}
		m.wT, m.wC, m.wPos = t.id, s.clockOf(t, t.id), s.curPos
		m.reads, m.rPos = nil, nil
	} else {
		if m.reads == nil {
			m.reads = map[int]int{}
			m.rPos = map[int]ssa.Instruction{}
		}
		m.reads[t.id] = s.clockOf(t, t.id)
		m.rPos[t.id] = s.curPos
	}
}

func (s *Sched) insPos(i ssa.Instruction) string {
	if i == nil {
		return "?"
	}
	fn := ""
	if i.Parent() != nil {
		fn = i.Parent().String()
	}
	return s.in.posStr(i.Pos()) + " (" + fn + ")"
}

func (s *Sched) race(prevPos ssa.Instruction, prevKind string, write bool) {
	kind := "read"
	if write {
		kind = "write"
	}
	msg := fmt.Sprintf("data race: %s at %s unordered with previous %s at %s", kind, s.insPos(s.curPos), prevKind, s.insPos(prevPos))
	if s.raceSeen[msg] {
		return
	}
	s.raceSeen[msg] = true
	s.in.res.Races = append(s.in.res.Races, msg)
}

// ---------------------------------------------------------------------------
// threads

func (s *Sched) newThread(name string) *Thread {
	t := &Thread{id: len(s.threads), name: name, wake: make(chan struct{}, 1)}
	s.threads = append(s.threads, t)
	return t
}

// runMain runs f as thread 0 and returns how the path ended.
func (s *Sched) runMain(f func()) pathEnd {
	t := s.newThread("main")
	t.vc = []int{1}
	t.started = true
	s.cur = t
	s.wg.Add(1)
	go s.threadBody(t, f)
	pe := <-s.endCh
	// tear down
	s.dead = true
	for _, th := range s.threads {
		select {
		case th.wake <- struct{}{}:
		default:
		}
	}
	s.wg.Wait()
	return pe
}

func (s *Sched) threadBody(t *Thread, f func()) {
	defer s.wg.Done()
	defer func() {
		r := recover()
		if r == nil {
			return
		}
		switch r := r.(type) {
		case pathEnd:
			if r.kind != "kill" {
				select {
				case s.endCh <- r:
				default:
				}
			}
		case *goPanic:
			msg := s.in.panicString(r)
			select {
			case s.endCh <- pathEnd{"gopanic", fmt.Sprintf("uncaught panic in goroutine %s: %s", t.name, msg)}:
			default:
			}
		case *engineBug:
			select {
			case s.endCh <- pathEnd{"engine-bug", r.msg + r.istack + "\n" + r.gstack}:
			default:
			}
		default:
			select {
			case s.endCh <- pathEnd{"engine-bug", fmt.Sprintf("%v\n%s", r, innermost(stackTrace()))}:
			default:
			}
		}
	}()
	if t.id != 0 {
		<-t.wake
		if s.dead {
			panic(pathEnd{"kill", ""})
		}
	}
	f()
	t.done = true
	if t.id == 0 {
		panic(pathEnd{"done", ""})
	}
	// hand the baton on
	s.cur = nil
	next := s.pick(nil)
	if next == nil {
		panic(pathEnd{"deadlock", s.describeBlocked()})
	}
	s.cur = next
	next.wake <- struct{}{}
}

func (in *Interp) spawn(fr *frame, fn value, args []value, name string) *Thread {
	s := in.sch
	if !s.multi {
		s.multi = true
	}
	if len(s.threads) >= in.ex.cfg.MaxThreads {
		panic(pathEnd{"unwind", fmt.Sprintf("more than %d threads", in.ex.cfg.MaxThreads)})
	}
	parent := s.cur
	t := s.newThread(name)
	if name == "" {
		t.name = fmt.Sprintf("g%d", t.id)
	}
	t.vc = append([]int(nil), parent.vc...)
	for len(t.vc) <= t.id {
		t.vc = append(t.vc, 0)
	}
	t.vc[t.id] = 1
	parent.tick()
	t.pending = &SyncOp{kind: "start", enabled: func() bool { return true }, completed: -1}
	s.wg.Add(1)
	go s.threadBody(t, func() {
		t.pending = nil
		in.callValue(nil, fn, args, 0)
	})
	return t
}

func (s *Sched) describeBlocked() string {
	str := ""
	for _, t := range s.threads {
		if t.done {
			continue
		}
		k := "running"
		if t.pending != nil {
			k = t.pending.kind
		}
		str += fmt.Sprintf("[%s blocked on %s] ", t.name, k)
	}
	return str
}

func (s *Sched) opEnabled(t *Thread) bool {
	op := t.pending
	if op == nil {
		return false
	}
	if op.cases != nil {
		return op.completed >= 0 || s.anyCaseReady(t, op)
	}
	return op.enabled()
}

// pick chooses the next thread to run among the enabled ones. self (may be
// nil) is the calling thread; it is listed first so that the first explored
// schedule is the non-preemptive one.
func (s *Sched) pick(self *Thread) *Thread {
	var cands []*Thread
	if self != nil && !self.pending.wq && s.opEnabled(self) {
		cands = append(cands, self)
	}
	for _, t := range s.threads {
		if t == self || t.done || t.pending == nil || t.pending.wq {
			continue
		}
		if s.opEnabled(t) {
			cands = append(cands, t)
		}
	}
	if len(cands) == 0 {
		// quiescent: controller(s) waiting for quiescence may proceed
		for _, t := range s.threads {
			if !t.done && t.pending != nil && t.pending.wq {
				cands = append(cands, t)
			}
		}
	}
	if len(cands) == 0 {
		return nil
	}
	// sleep sets (partial-order reduction): a thread whose pending transition was already explored
	// from an equivalent state and is independent of everything executed since stays asleep
	avail := cands
	if len(s.sleep) > 0 {
		avail = nil
		for _, t := range cands {
			if !s.sleep[t.id] {
				avail = append(avail, t)
			}
		}
		if len(avail) == 0 {
			panic(pathEnd{"sleepset", "redundant interleaving (all enabled threads asleep)"})
		}
	}
	i := 0
	if len(avail) > 1 {
		// preemption bound: switching away from an enabled current thread costs one
		if self != nil && avail[0] == self && s.in.ex.cfg.PreemptBound >= 0 && s.preempt >= s.in.ex.cfg.PreemptBound {
			i = 0
		} else {
			i = s.in.chooseN(len(avail), 's')
			if self != nil && avail[0] == self && i != 0 {
				s.preempt++
			}
		}
	}
	chosen := avail[i]
	if s.in.ex.cfg.NoSleepSets {
		return chosen
	}
	ns := map[int]bool{}
	for id := range s.sleep {
		if t := s.threads[id]; !t.done && t.pending != nil && independentOps(t.pending, chosen.pending) {
			ns[id] = true
		}
	}
	for _, t := range avail[:i] {
		if independentOps(t.pending, chosen.pending) {
			ns[t.id] = true
		}
	}
	s.sleep = ns
	return chosen
}

// independentOps: two pending transitions commute when they synchronise on different objects
// (operations without an object - thread start, yield, quiescence - are dependent on everything).
func independentOps(a, b *SyncOp) bool {
	if a == nil || b == nil || a.wq || b.wq {
		return false
	}
	if a.cases != nil || b.cases != nil {
		if a.cases == nil || b.cases == nil {
			return a.obj != nil && b.obj != nil || (a.cases != nil && b.obj != nil && !chanIn(a.cases, b.obj)) || (b.cases != nil && a.obj != nil && !chanIn(b.cases, a.obj))
		}
		for _, x := range a.cases {
			for _, y := range b.cases {
				if x.ch == y.ch {
					return false
				}
			}
		}
		return len(a.cases) > 0 && len(b.cases) > 0
	}
	if a.obj == nil || b.obj == nil {
		return false
	}
	return a.obj != b.obj
}

func chanIn(cs []chanCase, obj any) bool {
	ch, ok := obj.(*Chan)
	if !ok {
		return false
	}
	for _, c := range cs {
		if c.ch == ch {
			return true
		}
	}
	return false
}

// syncPoint parks the current thread at op until the scheduler selects it.
func (s *Sched) syncPoint(op *SyncOp) {
	if s.dead {
		panic(pathEnd{"kill", ""})
	}
	t := s.cur
	if op.completed == 0 && op.cases == nil {
		op.completed = -1
	}
	if !s.multi {
		// single-threaded fast path
		t.pending = op
		if !s.opEnabled(t) {
			panic(pathEnd{"deadlock", "single thread blocked on " + op.kind})
		}
		t.pending = nil
		return
	}
	t.pending = op
	s.segs++
	next := s.pick(t)
	if next == nil {
		panic(pathEnd{"deadlock", s.describeBlocked()})
	}
	if next != t {
		s.cur = next
		next.wake <- struct{}{}
		<-t.wake
		if s.dead {
			panic(pathEnd{"kill", ""})
		}
	}
	t.pending = nil
}

// ---------------------------------------------------------------------------
// channels

func (in *Interp) newChan(n int, elem types.Type) *Chan {
	in.nextID++
	return &Chan{id: in.nextID, cap: n, elem: elem}
}

func (in *Interp) chanLen(c *Chan) int {
	if c == nil {
		return 0
	}
	return len(c.buf)
}

func (s *Sched) pendingPartner(self *Thread, ch *Chan, wantSend bool) (*Thread, int) {
	for _, t := range s.threads {
		if t == self || t.done || t.pending == nil || t.pending.cases == nil || t.pending.completed >= 0 {
			continue
		}
		for i, c := range t.pending.cases {
			if c.ch == ch && c.send == wantSend {
				return t, i
			}
		}
	}
	return nil, -1
}

func (s *Sched) caseReady(self *Thread, c chanCase) bool {
	if c.ch == nil {
		return false
	}
	// rendezvous with a pending partner only exists on unbuffered channels; on a buffered channel a
	// partner that has not run yet has simply not touched the buffer
	if c.send {
		if c.ch.closed || len(c.ch.buf) < c.ch.cap {
			return true
		}
		if c.ch.cap > 0 {
			return false
		}
		p, _ := s.pendingPartner(self, c.ch, false)
		return p != nil
	}
	if c.ch.closed || len(c.ch.buf) > 0 {
		return true
	}
	if c.ch.cap > 0 {
		return false
	}
	p, _ := s.pendingPartner(self, c.ch, true)
	return p != nil
}

func (s *Sched) anyCaseReady(self *Thread, op *SyncOp) bool {
	for _, c := range op.cases {
		if s.caseReady(self, c) {
			return true
		}
	}
	return false
}

// chanOp performs a (possibly multi-case) channel operation. Returns the index
// of the case taken (-1 for default), the received value and ok.
func (in *Interp) chanOp(cases []chanCase, blocking bool) (int, value, bool) {
	s := in.sch
	op := &SyncOp{kind: "chan", cases: cases, completed: -1}
	if len(cases) == 1 {
		if cases[0].send {
			op.kind = "chan send"
		} else {
			op.kind = "chan recv"
		}
	} else {
		op.kind = "select"
	}
	t := s.cur
	if !blocking {
		// a non-blocking select is a scheduling point but never parks
		yield := &SyncOp{kind: "select-default", enabled: func() bool { return true }, completed: -1}
		s.syncPoint(yield)
		if !s.anyCaseReady(t, op) {
			return -1, nil, false
		}
	} else {
		if len(cases) == 0 {
			op.cases = []chanCase{} // select{} blocks forever
		}
		s.syncPoint(op)
	}
	if op.completed >= 0 {
		c := cases[op.completed]
		s.syncObj(&c.ch.vc)
		return op.completed, op.recvVal, op.recvOk
	}
	var ready []int
	for i, c := range cases {
		if s.caseReady(t, c) {
			ready = append(ready, i)
		}
	}
	if len(ready) == 0 {
		panic("chanOp: scheduled without ready case")
	}
	k := ready[in.chooseN(len(ready), 'c')]
	c := cases[k]
	ch := c.ch
	s.syncObj(&ch.vc)
	if c.send {
		if ch.closed {
			in.rtPanic("send on closed channel")
		}
		if p, pi := s.pendingPartner(t, ch, false); p != nil && ch.cap == 0 {
			p.pending.completed = pi
			p.pending.recvVal = copyVal(c.val)
			p.pending.recvOk = true
			return k, nil, false
		}
		if len(ch.buf) < ch.cap {
			ch.buf = append(ch.buf, copyVal(c.val))
			return k, nil, false
		}
		panic("chanOp: send ready but nowhere to put the value")
	}
	if len(ch.buf) > 0 {
		v := ch.buf[0]
		ch.buf = append([]value(nil), ch.buf[1:]...)
		// a sender blocked on a full buffer becomes ready by itself
		return k, v, true
	}
	if p, pi := s.pendingPartner(t, ch, true); p != nil && ch.cap == 0 {
		v := copyVal(p.pending.cases[pi].val)
		p.pending.completed = pi
		return k, v, true
	}
	if ch.closed {
		return k, in.zero(ch.elem), false
	}
	panic("chanOp: recv ready but nothing to take")
}

func (in *Interp) chanSend(fr *frame, ch *Chan, v value) {
	in.chanOp([]chanCase{{ch: ch, send: true, val: v}}, true)
}

func (in *Interp) chanRecv(fr *frame, ch *Chan, commaOk bool) value {
	_, v, ok := in.chanOp([]chanCase{{ch: ch}}, true)
	if commaOk {
		return Tuple{v, in.ts.Bool(ok)}
	}
	return v
}

func (in *Interp) chanClose(fr *frame, ch *Chan) {
	if ch == nil {
		in.rtPanic("close of nil channel")
	}
	s := in.sch
	s.syncPoint(&SyncOp{kind: "close", obj: ch, enabled: func() bool { return true }, completed: -1})
	if ch.closed {
		in.rtPanic("close of closed channel")
	}
	s.syncObj(&ch.vc)
	ch.closed = true
}

func (in *Interp) selectOp(fr *frame, ins *ssa.Select) value {
	cases := make([]chanCase, len(ins.States))
	for i, st := range ins.States {
		ch, _ := in.get(fr, st.Chan).(*Chan)
		cases[i] = chanCase{ch: ch, send: st.Dir == types.SendOnly}
		if st.Send != nil {
			cases[i].val = in.get(fr, st.Send)
		}
	}
	idx, rv, ok := in.chanOp(cases, ins.Blocking)
	r := Tuple{in.ts.Const(64, uint64(int64(idx))), in.ts.Bool(ok)}
	for i, st := range ins.States {
		if st.Dir == types.RecvOnly {
			var v value
			if i == idx && ok {
				v = rv
			} else {
				v = in.zero(under(st.Chan.Type()).(*types.Chan).Elem())
			}
			r = append(r, v)
		}
	}
	return r
}

// ---------------------------------------------------------------------------
// sync.Mutex / RWMutex / Cond / WaitGroup

func (s *Sched) mutex(p Ptr) *mutexState {
	if p.IsNil() {
		s.in.rtPanic("invalid memory address or nil pointer dereference (nil mutex)")
	}
	m := s.mutexes[p.p]
	if m == nil {
		m = &mutexState{owner: -1}
		s.mutexes[p.p] = m
	}
	return m
}

func (s *Sched) fatal(msg string) {
	panic(pathEnd{"fatal", "fatal error: " + msg})
}

func (s *Sched) mutexLock(p Ptr) {
	m := s.mutex(p)
	s.syncPoint(&SyncOp{kind: "Mutex.Lock", obj: m, enabled: func() bool { return !m.locked }, completed: -1})
	m.locked = true
	m.owner = s.cur.id
	s.acquire(m.vc)
}

func (s *Sched) mutexTryLock(p Ptr) bool {
	m := s.mutex(p)
	s.syncPoint(&SyncOp{kind: "Mutex.TryLock", obj: m, enabled: func() bool { return true }, completed: -1})
	if m.locked {
		return false
	}
	m.locked = true
	m.owner = s.cur.id
	s.acquire(m.vc)
	return true
}

func (s *Sched) mutexUnlock(p Ptr) {
	m := s.mutex(p)
	if !m.locked {
		s.fatal("sync: unlock of unlocked mutex")
	}
	s.release(&m.vc)
	m.locked = false
	m.owner = -1
}

func (s *Sched) rwLock(p Ptr) {
	m := s.mutex(p)
	// phase 1: announce (serialises writers, blocks new readers)
	s.syncPoint(&SyncOp{kind: "RWMutex.Lock(announce)", obj: m, enabled: func() bool { return !m.locked && m.pendW == 0 }, completed: -1})
	m.pendW++
	if m.readers > 0 {
		s.syncPoint(&SyncOp{kind: "RWMutex.Lock(wait readers)", obj: m, enabled: func() bool { return m.readers == 0 }, completed: -1})
	}
	m.pendW--
	m.locked = true
	m.owner = s.cur.id
	s.acquire(m.vc)
}

func (s *Sched) rwUnlock(p Ptr) {
	m := s.mutex(p)
	if !m.locked {
		s.fatal("sync: Unlock of unlocked RWMutex")
	}
	s.release(&m.vc)
	m.locked = false
	m.owner = -1
}

func (s *Sched) rwRLock(p Ptr) {
	m := s.mutex(p)
	s.syncPoint(&SyncOp{kind: "RWMutex.RLock", obj: m, enabled: func() bool { return !m.locked && m.pendW == 0 }, completed: -1})
	m.readers++
	s.acquire(m.vc)
}

func (s *Sched) rwRUnlock(p Ptr) {
	m := s.mutex(p)
	if m.readers <= 0 {
		s.fatal("sync: RUnlock of unlocked RWMutex")
	}
	s.release(&m.vc)
	m.readers--
}

func (s *Sched) rwTryLock(p Ptr) bool {
	m := s.mutex(p)
	s.syncPoint(&SyncOp{kind: "RWMutex.TryLock", obj: m, enabled: func() bool { return true }, completed: -1})
	if m.locked || m.readers > 0 || m.pendW > 0 {
		return false
	}
	m.locked = true
	m.owner = s.cur.id
	s.acquire(m.vc)
	return true
}

func (s *Sched) rwTryRLock(p Ptr) bool {
	m := s.mutex(p)
	s.syncPoint(&SyncOp{kind: "RWMutex.TryRLock", obj: m, enabled: func() bool { return true }, completed: -1})
	if m.locked || m.pendW > 0 {
		return false
	}
	m.readers++
	s.acquire(m.vc)
	return true
}

func (s *Sched) cond(p Ptr) *condState {
	c := s.conds[p.p]
	if c == nil {
		c = &condState{}
		s.conds[p.p] = c
	}
	return c
}

// condWait: enqueue, unlock L (through the program's own Locker), park, relock.
func (in *Interp) condWait(fr *frame, p Ptr) {
	s := in.sch
	c := s.cond(p)
	w := &condWaiter{t: s.cur}
	c.waiters = append(c.waiters, w)
	L := (*p.p).(Struct)[in.ex.condLField].(Iface)
	in.invoke(fr, L, "Unlock")
	s.syncPoint(&SyncOp{kind: "Cond.Wait", obj: c, enabled: func() bool { return w.signaled }, completed: -1})
	s.acquire(c.vc)
	in.invoke(fr, L, "Lock")
}

func (in *Interp) condSignal(p Ptr, all bool) {
	s := in.sch
	c := s.cond(p)
	s.release(&c.vc)
	if len(c.waiters) == 0 {
		return
	}
	if all {
		for _, w := range c.waiters {
			w.signaled = true
		}
		c.waiters = nil
		return
	}
	k := 0
	if in.ex.cfg.CondSignalAny && len(c.waiters) > 1 {
		k = in.chooseN(len(c.waiters), 'c')
	}
	c.waiters[k].signaled = true
	c.waiters = append(append([]*condWaiter(nil), c.waiters[:k]...), c.waiters[k+1:]...)
}

func (in *Interp) invoke(fr *frame, recv Iface, method string) value {
	if recv.t == nil {
		in.rtPanic("invalid memory address or nil pointer dereference (nil Locker)")
	}
	var pkg *types.Package
	if n, ok := recv.t.(*types.Pointer); ok {
		if nn, ok := n.Elem().(*types.Named); ok {
			pkg = nn.Obj().Pkg()
		}
	} else if nn, ok := recv.t.(*types.Named); ok {
		pkg = nn.Obj().Pkg()
	}
	f := in.prog.LookupMethod(recv.t, pkg, method)
	if f == nil {
		panic("invoke: no method " + method + " on " + recv.t.String())
	}
	return in.callFn(fr, f, []value{recv.v}, nil)
}

func (s *Sched) waitGroup(p Ptr) *wgState {
	w := s.wgs[p.p]
	if w == nil {
		w = &wgState{}
		s.wgs[p.p] = w
	}
	return w
}

func (in *Interp) wgAdd(p Ptr, d *Term) {
	s := in.sch
	w := s.waitGroup(p)
	n := in.concretize(d, -64, 64, "WaitGroup.Add")
	s.release(&w.vc)
	w.n += n
	if w.n < 0 {
		in.goPanic(Iface{t: types.Typ[types.String], v: mkStr(in.ts, "sync: negative WaitGroup counter")})
	}
}

func (in *Interp) wgWait(p Ptr) {
	s := in.sch
	w := s.waitGroup(p)
	s.syncPoint(&SyncOp{kind: "WaitGroup.Wait", obj: w, enabled: func() bool { return w.n == 0 }, completed: -1})
	s.acquire(w.vc)
}

// atomics: a scheduling point, then the caller performs the update.
func (s *Sched) atomicPoint(key any) {
	s.syncPoint(&SyncOp{kind: "atomic", obj: key, enabled: func() bool { return true }, completed: -1})
	if s.multi {
		vc := s.atomVC[key]
		s.syncObj(&vc)
		s.atomVC[key] = vc
	}
}

func (s *Sched) yield(kind string) {
	s.syncPoint(&SyncOp{kind: kind, enabled: func() bool { return true }, completed: -1})
}

// waitQuiescent: the caller proceeds only when no other thread can run.
func (s *Sched) waitQuiescent() {
	if !s.multi {
		return
	}
	s.syncPoint(&SyncOp{kind: "WaitQuiescent", wq: true, enabled: func() bool { return false }, completed: -1})
	// inspection after quiescence is ordered after everything the others did
	for _, t := range s.threads {
		if t != s.cur {
			s.cur.vc = joinVC(s.cur.vc, t.vc)
		}
	}
}

// sync.Pool: Put stores the item; Get hands back a stored item (most recent first) or, by a
// recorded choice, behaves as if the pool had been emptied (the runtime may drop pooled items at
// any time) and calls New. Both are scheduling points on the pool; a Put happens before the Get
// that returns its item.
func (s *Sched) poolPut(p Ptr, x value) {
	m := s.mutex(p)
	s.syncPoint(&SyncOp{kind: "Pool.Put", obj: m, enabled: func() bool { return true }, completed: -1})
	s.release(&m.vc)
	s.pools[p.p] = append(s.pools[p.p], x)
}

func (s *Sched) poolGet(p Ptr) (value, bool) {
	m := s.mutex(p)
	s.syncPoint(&SyncOp{kind: "Pool.Get", obj: m, enabled: func() bool { return true }, completed: -1})
	items := s.pools[p.p]
	if len(items) == 0 || s.in.chooseN(2, 'c') == 1 {
		return nil, false
	}
	x := items[len(items)-1]
	s.pools[p.p] = items[:len(items)-1]
	s.acquire(m.vc)
	return x, true
}
