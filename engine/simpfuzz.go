package main

// Differential self-check of the term simplifier: random terms are built twice — raw (hash-consed
// nodes without any rewriting) and through the simplifying constructors — and evaluated under
// random assignments; the two must agree and the cached unsigned bounds must contain the value.
// This validates the tool (it decides no property): `symgo selftest` runs it on every setup.

import (
	"fmt"
	"math/rand"
)

type fuzzGen struct {
	ts   *TermStore
	rng  *rand.Rand
	vars map[int][]*Term
}

var fuzzWidths = []int{1, 8, 16, 32, 64}

func (g *fuzzGen) konst(w int) uint64 {
	m := mask(w)
	switch g.rng.Intn(8) {
	case 0:
		return 0
	case 1:
		return 1
	case 2:
		return m
	case 3:
		return (m >> 1) + 1 // sign bit
	case 4:
		return m >> 1
	case 5:
		return []uint64{10, 100, 1000, 1000000, 1000000000, 64, 63, 3}[g.rng.Intn(8)] & m
	}
	return g.rng.Uint64() & m
}

// bv returns (raw, simplified) of width w.
func (g *fuzzGen) bv(w, depth int) (*Term, *Term) {
	ts := g.ts
	if depth <= 0 || g.rng.Intn(6) == 0 {
		if g.rng.Intn(3) == 0 {
			c := ts.Const(w, g.konst(w))
			return c, c
		}
		vs := g.vars[w]
		v := vs[g.rng.Intn(len(vs))]
		return v, v
	}
	switch g.rng.Intn(14) {
	case 0, 1, 2, 3, 4, 5:
		ops := []Op{OpAdd, OpSub, OpMul, OpUDiv, OpURem, OpSDiv, OpSRem, OpBAnd, OpBOr, OpBXor, OpShl, OpLShr, OpAShr}
		op := ops[g.rng.Intn(len(ops))]
		ar, as := g.bv(w, depth-1)
		br, bs := g.bv(w, depth-1)
		return ts.mk(op, w, 0, "", ar, br), ts.Bin(op, as, bs)
	case 6:
		ar, as := g.bv(w, depth-1)
		return ts.mk(OpNeg, w, 0, "", ar), ts.Neg(as)
	case 7:
		ar, as := g.bv(w, depth-1)
		return ts.mk(OpBNot, w, 0, "", ar), ts.BNot(as)
	case 8, 9:
		cr, cs := g.boolean(depth - 1)
		ar, as := g.bv(w, depth-1)
		br, bs := g.bv(w, depth-1)
		return ts.mk(OpIte, w, 0, "", cr, ar, br), ts.Ite(cs, as, bs)
	case 10, 11: // extension from a narrower width
		var nw []int
		for _, x := range fuzzWidths {
			if x < w {
				nw = append(nw, x)
			}
		}
		if len(nw) == 0 {
			return g.bv(w, 0)
		}
		sw := nw[g.rng.Intn(len(nw))]
		ar, as := g.bv(sw, depth-1)
		if g.rng.Intn(2) == 0 {
			return ts.mk(OpZExt, w, 0, "", ar), ts.ZExt(as, w)
		}
		return ts.mk(OpSExt, w, 0, "", ar), ts.SExt(as, w)
	default: // extract from a wider width
		var ww []int
		for _, x := range fuzzWidths {
			if x > w {
				ww = append(ww, x)
			}
		}
		if len(ww) == 0 {
			return g.bv(w, 0)
		}
		bw := ww[g.rng.Intn(len(ww))]
		ar, as := g.bv(bw, depth-1)
		lo := g.rng.Intn(bw - w + 1)
		hi := lo + w - 1
		return ts.mk(OpExtract, w, uint64(hi)<<8|uint64(lo), "", ar), ts.Extract(as, hi, lo)
	}
}

func (g *fuzzGen) boolean(depth int) (*Term, *Term) {
	ts := g.ts
	if depth <= 0 || g.rng.Intn(3) > 0 {
		w := fuzzWidths[1+g.rng.Intn(len(fuzzWidths)-1)]
		ar, as := g.bv(w, depth-1)
		br, bs := g.bv(w, depth-1)
		switch g.rng.Intn(5) {
		case 0:
			return ts.mk(OpEq, 0, 0, "", ar, br), ts.Eq(as, bs)
		case 1:
			return ts.mk(OpULt, 0, 0, "", ar, br), ts.Cmp(OpULt, as, bs)
		case 2:
			return ts.mk(OpULe, 0, 0, "", ar, br), ts.Cmp(OpULe, as, bs)
		case 3:
			return ts.mk(OpSLt, 0, 0, "", ar, br), ts.Cmp(OpSLt, as, bs)
		}
		return ts.mk(OpSLe, 0, 0, "", ar, br), ts.Cmp(OpSLe, as, bs)
	}
	switch g.rng.Intn(3) {
	case 0:
		ar, as := g.boolean(depth - 1)
		return ts.mk(OpNot, 0, 0, "", ar), ts.Not(as)
	case 1:
		ar, as := g.boolean(depth - 1)
		br, bs := g.boolean(depth - 1)
		return ts.mk(OpAnd, 0, 0, "", ar, br), ts.And(as, bs)
	}
	ar, as := g.boolean(depth - 1)
	br, bs := g.boolean(depth - 1)
	return ts.mk(OpOr, 0, 0, "", ar, br), ts.Or(as, bs)
}

func simpFuzz(nTerms int, seed int64) bool {
	ts := NewTermStore()
	g := &fuzzGen{ts: ts, rng: rand.New(rand.NewSource(seed)), vars: map[int][]*Term{}}
	var all []*Term
	for _, w := range fuzzWidths {
		for i := 0; i < 2; i++ {
			v := ts.Var(fmt.Sprintf("f%d_%d", w, i), w)
			g.vars[w] = append(g.vars[w], v)
			all = append(all, v)
		}
	}
	evals := 0
	for n := 0; n < nTerms; n++ {
		var raw, simp *Term
		if n%4 == 0 {
			raw, simp = g.boolean(3)
		} else {
			raw, simp = g.bv(fuzzWidths[1+g.rng.Intn(len(fuzzWidths)-1)], 4)
		}
		if raw.w != simp.w {
			fmt.Printf("selftest: simplifier changed the width of %s: %d -> %d\n", raw, raw.w, simp.w)
			return false
		}
		for k := 0; k < 12; k++ {
			m := Model{}
			for _, v := range all {
				m[v.name] = g.konst(v.w)
			}
			a, b := NewEvaluator(m).Eval(raw), NewEvaluator(m).Eval(simp)
			evals++
			if a != b {
				fmt.Printf("selftest: simplifier mismatch under %v:\n  raw  %s = %d\n  simp %s = %d\n", m, raw, a, simp, b)
				return false
			}
			if simp.w > 0 {
				lo, hi := ts.ubounds(simp)
				if b < lo || b > hi {
					fmt.Printf("selftest: value %d of %s outside its cached bounds [%d,%d] under %v\n", b, simp, lo, hi, m)
					return false
				}
				lo, hi = ts.ubounds(raw)
				if a < lo || a > hi {
					fmt.Printf("selftest: value %d of raw %s outside its bounds [%d,%d] under %v\n", a, raw, lo, hi, m)
					return false
				}
			}
		}
	}
	fmt.Printf("selftest: %d random terms, %d evaluations: simplified = raw, bounds contain the values\n", nTerms, evals)
	return true
}

// printerFuzz: the SMT-LIB printing of every operator means what the evaluator computes: for random
// raw terms and assignments, (vars = assignment) and (term != evaluated constant) must be unsat.
func printerFuzz(nTerms int, seed int64) bool {
	ts := NewTermStore()
	g := &fuzzGen{ts: ts, rng: rand.New(rand.NewSource(seed)), vars: map[int][]*Term{}}
	var all []*Term
	for _, w := range fuzzWidths {
		for i := 0; i < 2; i++ {
			v := ts.Var(fmt.Sprintf("p%d_%d", w, i), w)
			g.vars[w] = append(g.vars[w], v)
			all = append(all, v)
		}
	}
	s, err := NewSolver("z3-new", 20000)
	if err != nil {
		fmt.Println("selftest: cannot start z3-new", err)
		return false
	}
	defer s.Close()
	for n := 0; n < nTerms; n++ {
		var raw *Term
		if n%4 == 0 {
			raw, _ = g.boolean(2)
		} else {
			raw, _ = g.bv(fuzzWidths[1+g.rng.Intn(len(fuzzWidths)-1)], 3)
		}
		m := Model{}
		as := []*Term{}
		for _, v := range all {
			m[v.name] = g.konst(v.w)
			if v.w == 1 {
				as = append(as, ts.mk(OpEq, 0, 0, "", v, ts.Const(1, m[v.name])))
			} else {
				as = append(as, ts.mk(OpEq, 0, 0, "", v, ts.Const(v.w, m[v.name])))
			}
		}
		val := NewEvaluator(m).Eval(raw)
		var neq *Term
		if raw.w == 0 {
			neq = raw
			if val != 0 {
				neq = ts.mk(OpNot, 0, 0, "", raw)
			}
		} else {
			neq = ts.mk(OpNot, 0, 0, "", ts.mk(OpEq, 0, 0, "", raw, ts.Const(raw.w, val)))
		}
		s.stack = nil
		r, _, err := s.Check(append(as, neq), nil)
		if err != nil || r != Unsat {
			fmt.Printf("selftest: solver and evaluator disagree on %s under %v: evaluator %d, solver says %v %v\n", raw, m, val, r, err)
			return false
		}
	}
	fmt.Printf("selftest: %d random terms: the solver's reading of the printed term equals the evaluator's value\n", nTerms)
	return true
}
