package main

import (
	"fmt"
	"go/types"
	"os"
	"regexp"
	"sort"
	"strings"
	"sync"
	"time"

	"golang.org/x/tools/go/ssa"
)

type Config struct {
	Solver        string
	TimeoutMs     int
	MaxDecisions  int
	MaxInstrs     int
	MaxFork       int
	MaxSymArray   int
	MaxAlloc      int
	MaxThreads    int
	PreemptBound  int
	CondSignalAny bool
	Unwind        int
	MaxPaths      int
	MaxViolations int
	Workers       int
	Concrete      map[string]uint64 // concrete mode: named inputs
	NoopPkgs      []string
	Params        map[string]int64
	Known         map[string]bool
	Prefix        []Decision // concrete/replay mode: scheduler and choice decisions
	WallBudget    time.Duration
	FallbackMs    int
	NoSleepSets   bool
}

func DefaultConfig() Config {
	return Config{Solver: "z3-new", TimeoutMs: 10000, MaxDecisions: 4000, MaxInstrs: 20_000_000, MaxFork: 128, MaxSymArray: 1100,
		MaxAlloc: 4096, MaxThreads: 12, PreemptBound: -1, Unwind: 256, MaxPaths: 200000, MaxViolations: 3, Workers: 8, FallbackMs: 60000}
}

type WorkItem struct {
	Prefix    []Decision
	Model     Model
	Uncertain bool
}

type Violation struct {
	Harness   string            `json:"harness"`
	Kind      string            `json:"kind"`
	Label     string            `json:"label"`
	Model     map[string]string `json:"model,omitempty"`
	Decisions []Decision        `json:"decisions,omitempty"`
}

type KnownHit struct {
	ID string
	V  Violation
}

type PathResult struct {
	End           pathEnd
	Violations    []Violation
	KnownHits     []KnownHit
	KnownRegions  []string
	Reached       map[string]map[string]string
	Asserts       int
	Discharged    int
	SolverAsserts int
	Unknowns      int
	Inconclusive  []string
	Races         []string
	SatOK         []string
	SatFail       []string
	Obs           []string
	Inputs        []string
	NDecisions    int
	NSymbolic     int
	Instrs        int
	Segs          int
	Threads       int
	UsesStub      bool
	UsesUninterp  bool // a library function modelled as an uninterpreted function (xxhash) was evaluated
}

type HarnessResult struct {
	Name          string                       `json:"name"`
	Paths         int                          `json:"paths"`
	PathsSymbolic int                          `json:"paths_with_symbolic_decisions"`
	EndKinds      map[string]int               `json:"path_end_kinds"`
	Violations    []Violation                  `json:"violations"`
	KnownHits     map[string]int               `json:"known_hits"`
	KnownSamples  map[string]Violation         `json:"-"`
	Reached       map[string]map[string]string `json:"reached"`
	Asserts       int                          `json:"assert_checks"`
	Discharged    int                          `json:"assert_discharged"`
	SolverAsserts int                          `json:"assert_solver_queries"`
	Unknowns      int                          `json:"solver_unknown"`
	Inconclusive  []string                     `json:"inconclusive"`
	Races         []string                     `json:"races"`
	SatFail       []string                     `json:"sat_obligations_failed"`
	SatOK         int                          `json:"sat_obligations_ok"`
	Instrs        int64                        `json:"ssa_instructions_executed"`
	Segs          int                          `json:"thread_segments"`
	MaxThreads    int                          `json:"max_threads"`
	UsesStub      bool                         `json:"uses_harness_stub"`
	UsesUninterp  bool                         `json:"uses_uninterpreted_model"`
	Queries       int                          `json:"solver_queries"`
	SolverTime    float64                      `json:"solver_time_s"`
	Wall          float64                      `json:"wall_s"`
	Obs           []string                     `json:"-"`
	Aborted       string                       `json:"aborted,omitempty"`
	Params        map[string]int64             `json:"params,omitempty"`
	satOKSet      map[string]bool
}

type Explorer struct {
	cfg  Config
	prog *ssa.Program
	pkgs []*ssa.Package

	runtimeErrT types.Type
	condLField  int

	mu       sync.Mutex
	cond     *sync.Cond
	queue    []*WorkItem
	active   int
	stop     bool
	funcs    map[string]int
	stubs    map[string]bool
	solverEr []string
	res      *HarnessResult
	typeMemo map[string]types.Type
	funcMemo map[string]*ssa.Function
	sampleQ  []string
	dumpN    int
	fbSat, fbUnsat, fbUnknown int
	start    time.Time
	xq       []xQuery // sampled queries for the cross-solver comparison
	xqSeen   map[string]int
}

// xQuery: a standalone copy of a query the primary solver decided.
type xQuery struct {
	Harness string
	Script  string
	Res     Result
}

// noteXQ samples decided queries: the first 2 of each harness, then every 400th, at most 40 per explorer.
func (ex *Explorer) noteXQ(as []*Term, r Result) {
	if r != Sat && r != Unsat {
		return
	}
	ex.mu.Lock()
	defer ex.mu.Unlock()
	if ex.xqSeen == nil {
		ex.xqSeen = map[string]int{}
	}
	h := ""
	if ex.res != nil {
		h = ex.res.Name
	}
	ex.xqSeen[h]++
	n := ex.xqSeen[h]
	if len(ex.xq) >= 40 || (n > 2 && n%400 != 0) {
		return
	}
	ex.xq = append(ex.xq, xQuery{h, Standalone(as), r})
}

func NewExplorer(prog *ssa.Program, cfg Config) *Explorer {
	ex := &Explorer{cfg: cfg, prog: prog, funcs: map[string]int{}, stubs: map[string]bool{}, typeMemo: map[string]types.Type{}, funcMemo: map[string]*ssa.Function{}}
	ex.cond = sync.NewCond(&ex.mu)
	ex.runtimeErrT = ex.lookupType("runtime", "errorString")
	if ex.runtimeErrT == nil {
		panic("runtime.errorString not found")
	}
	if ct := ex.lookupType("sync", "Cond"); ct != nil {
		st := ct.Underlying().(*types.Struct)
		for i := 0; i < st.NumFields(); i++ {
			if st.Field(i).Name() == "L" {
				ex.condLField = i
			}
		}
	}
	return ex
}

func (ex *Explorer) pkgByPath(path string) *ssa.Package {
	for _, p := range ex.prog.AllPackages() {
		if p.Pkg.Path() == path {
			return p
		}
	}
	return nil
}

func (ex *Explorer) lookupType(pkg, name string) types.Type {
	ex.mu.Lock()
	defer ex.mu.Unlock()
	k := pkg + "." + name
	if t, ok := ex.typeMemo[k]; ok {
		return t
	}
	var t types.Type
	if p := ex.pkgByPath(pkg); p != nil {
		if o := p.Pkg.Scope().Lookup(name); o != nil {
			t = o.Type()
		}
	}
	ex.typeMemo[k] = t
	return t
}

func (ex *Explorer) lookupFunc(pkg, name string) *ssa.Function {
	ex.mu.Lock()
	defer ex.mu.Unlock()
	k := pkg + "." + name
	if f, ok := ex.funcMemo[k]; ok {
		return f
	}
	var f *ssa.Function
	if p := ex.pkgByPath(pkg); p != nil {
		f = p.Func(name)
	}
	ex.funcMemo[k] = f
	return f
}

func (ex *Explorer) noteFunc(fn *ssa.Function) {
	n := 0
	for _, b := range fn.Blocks {
		n += len(b.Instrs)
	}
	ex.mu.Lock()
	ex.funcs[fn.String()] = n
	ex.mu.Unlock()
}

func (ex *Explorer) noteStub(name string) {
	ex.mu.Lock()
	ex.stubs[name] = true
	ex.mu.Unlock()
}

func (ex *Explorer) noteSolverError(err error) {
	ex.mu.Lock()
	if len(ex.solverEr) < 20 {
		ex.solverEr = append(ex.solverEr, err.Error())
	}
	ex.mu.Unlock()
}

func (ex *Explorer) noteAssertQuery(pc []*Term, c *Term) {
	ex.mu.Lock()
	if len(ex.sampleQ) < 3 {
		ex.sampleQ = append(ex.sampleQ, fmt.Sprintf("pc(%d conjuncts) => %s", len(pc), c.str(3)))
	}
	ex.mu.Unlock()
}

func (ex *Explorer) noteFallback(r Result) {
	ex.mu.Lock()
	switch r {
	case Sat:
		ex.fbSat++
	case Unsat:
		ex.fbUnsat++
	default:
		ex.fbUnknown++
	}
	ex.mu.Unlock()
}

func (ex *Explorer) isKnown(id string) bool { return ex.cfg.Known[id] }

func (ex *Explorer) push(w *WorkItem) {
	ex.mu.Lock()
	ex.queue = append(ex.queue, w)
	ex.mu.Unlock()
	ex.cond.Signal()
}

// RunHarness explores all paths of one harness function.
func (ex *Explorer) RunHarness(fn *ssa.Function) *HarnessResult {
	res := &HarnessResult{Name: fn.Name(), EndKinds: map[string]int{}, KnownHits: map[string]int{}, KnownSamples: map[string]Violation{}, Reached: map[string]map[string]string{}}
	ex.res = res
	ex.queue = []*WorkItem{{Prefix: ex.cfg.Prefix}}
	ex.active = 0
	ex.stop = false
	ex.start = time.Now()
	if os.Getenv("SYMGO_PROGRESS") != "" {
		stopT := make(chan struct{})
		defer close(stopT)
		go func() {
			tk := time.NewTicker(5 * time.Second)
			defer tk.Stop()
			for {
				select {
				case <-stopT:
					return
				case <-tk.C:
					ex.mu.Lock()
					fmt.Fprintf(os.Stderr, "[progress %s] t=%.0fs paths=%d queue=%d active=%d ends=%v unknown=%d fallback(sat/unsat/unk)=%d/%d/%d\n", res.Name, time.Since(ex.start).Seconds(), res.Paths, len(ex.queue), ex.active, res.EndKinds, res.Unknowns, ex.fbSat, ex.fbUnsat, ex.fbUnknown)
					ex.mu.Unlock()
				}
			}
		}()
	}
	var wg sync.WaitGroup
	nw := ex.cfg.Workers
	if ex.cfg.Concrete != nil {
		nw = 1
	}
	solvers := make([]*Solver, nw)
	for w := 0; w < nw; w++ {
		wg.Add(1)
		go func(w int) {
			defer wg.Done()
			in := ex.newInterp()
			defer func() { solvers[w] = in.solver; in.solver.Close() }()
			for {
				ex.mu.Lock()
				for len(ex.queue) == 0 && ex.active > 0 && !ex.stop {
					ex.cond.Wait()
				}
				if ex.stop || (len(ex.queue) == 0 && ex.active == 0) {
					ex.mu.Unlock()
					ex.cond.Broadcast()
					return
				}
				// depth-first: take the most recently pushed item
				it := ex.queue[len(ex.queue)-1]
				ex.queue = ex.queue[:len(ex.queue)-1]
				ex.active++
				ex.mu.Unlock()

				pr := in.runPath(fn, it)

				ex.mu.Lock()
				ex.active--
				ex.merge(res, pr)
				if res.Paths >= ex.cfg.MaxPaths {
					res.Aborted = fmt.Sprintf("path budget %d exhausted", ex.cfg.MaxPaths)
					ex.stop = true
				}
				if ex.cfg.WallBudget > 0 && time.Since(ex.start) > ex.cfg.WallBudget {
					res.Aborted = fmt.Sprintf("wall budget %s exhausted", ex.cfg.WallBudget)
					ex.stop = true
				}
				if len(res.Violations) >= ex.cfg.MaxViolations {
					ex.stop = true
				}
				ex.mu.Unlock()
				ex.cond.Broadcast()
			}
		}(w)
	}
	wg.Wait()
	for _, s := range solvers {
		if s != nil {
			res.Queries += s.Queries
			res.SolverTime += s.Time.Seconds()
		}
	}
	res.Wall = time.Since(ex.start).Seconds()
	// a satisfiability obligation holds if it is satisfiable on at least one path
	var stillFail []string
	for _, l := range res.SatFail {
		if !res.satOKSet[l] {
			stillFail = append(stillFail, l)
		}
	}
	res.SatFail = stillFail
	sort.Strings(res.Races)
	return res
}

func (ex *Explorer) merge(res *HarnessResult, pr *PathResult) {
	res.Paths++
	if pr.NSymbolic > 0 {
		res.PathsSymbolic++
	}
	res.EndKinds[pr.End.kind]++
	for _, v := range pr.Violations {
		v.Harness = res.Name
		if len(res.Violations) < 10 {
			res.Violations = append(res.Violations, v)
		}
	}
	for _, k := range pr.KnownHits {
		res.KnownHits[k.ID]++
		if _, ok := res.KnownSamples[k.ID]; !ok {
			k.V.Harness = res.Name
			res.KnownSamples[k.ID] = k.V
		}
	}
	for l, m := range pr.Reached {
		if _, ok := res.Reached[l]; !ok {
			res.Reached[l] = m
		}
	}
	res.Asserts += pr.Asserts
	res.Discharged += pr.Discharged
	res.SolverAsserts += pr.SolverAsserts
	res.Unknowns += pr.Unknowns
	res.SatOK += len(pr.SatOK)
	for _, s := range pr.SatOK {
		if res.satOKSet == nil {
			res.satOKSet = map[string]bool{}
		}
		res.satOKSet[s] = true
	}
	for _, s := range pr.SatFail {
		if !contains(res.SatFail, s) {
			res.SatFail = append(res.SatFail, s)
		}
	}
	for _, s := range pr.Inconclusive {
		if len(res.Inconclusive) < 20 && !contains(res.Inconclusive, s) {
			res.Inconclusive = append(res.Inconclusive, s)
		}
	}
	for _, s := range pr.Races {
		if !contains(res.Races, s) {
			res.Races = append(res.Races, s)
		}
	}
	switch pr.End.kind {
	case "done", "assume", "assert-failed", "sleepset":
	case "infeasible":
	default:
		msg := pr.End.kind + ": " + pr.End.msg
		if pr.End.kind == "engine-bug" {
			// keep the interpreted location, drop the Go stack (dedupes across paths)
			parts := strings.SplitN(msg, "\npanic(", 2)
			msg = parts[0]
			if len(res.Inconclusive) == 0 && len(parts) > 1 {
				msg += "\n" + parts[1]
			}
		}
		if len(msg) > 1500 {
			msg = msg[:1500] + "..."
		}
		if len(res.Inconclusive) < 20 && !contains(res.Inconclusive, msg) {
			res.Inconclusive = append(res.Inconclusive, msg)
		}
	}
	res.Instrs += int64(pr.Instrs)
	res.Segs += pr.Segs
	if pr.UsesStub {
		res.UsesStub = true
	}
	if pr.UsesUninterp {
		res.UsesUninterp = true
	}
	if pr.Threads > res.MaxThreads {
		res.MaxThreads = pr.Threads
	}
	if ex.cfg.Concrete != nil {
		res.Obs = pr.Obs
	}
}

func contains(ss []string, s string) bool {
	for _, x := range ss {
		if x == s {
			return true
		}
	}
	return false
}

func (ex *Explorer) newInterp() *Interp {
	in := &Interp{ex: ex, prog: ex.prog, ts: NewTermStore(), fninfo: map[*ssa.Function]*fnInfo{}}
	s, err := NewSolver(ex.cfg.Solver, ex.cfg.TimeoutMs)
	if err != nil {
		panic(err)
	}
	if p := os.Getenv("SYMGO_SMTLOG"); p != "" {
		f, _ := os.Create(fmt.Sprintf("%s.%p", p, in))
		s.log = f
	}
	in.solver = s
	in.initExterns()
	return in
}

func (in *Interp) runPath(fn *ssa.Function, it *WorkItem) *PathResult {
	in.pc = in.pc[:0]
	in.decisions = nil
	in.prefix = it.Prefix
	in.pos = 0
	in.depth = 0
	in.setModel(it.Model)
	in.globals = map[*ssa.Global]*value{}
	in.inited = map[*ssa.Package]bool{}
	in.nextID = 0
	in.instrs = 0
	in.varSeq = map[string]int{}
	in.inputs = nil
	in.inputTy = map[string]string{}
	in.unwind = in.ex.cfg.Unwind
	in.mapOrderAll = false
	in.knownActive = ""
	in.forkIndex = false
	in.pcSet = map[*Term]bool{}
	in.xxMemo = nil
	in.uncertain = it.Uncertain
	in.pathStubs = map[string]value{}
	in.res = &PathResult{Reached: map[string]map[string]string{}}
	in.sch = newSched(in)
	pe := in.sch.runMain(func() {
		in.callFn(nil, fn, nil, nil)
	})
	res := in.res
	res.End = pe
	res.NDecisions = len(in.decisions)
	for _, d := range in.decisions {
		if d.Kind == 'b' || d.Kind == 'c' {
			res.NSymbolic++
		}
	}
	res.Instrs = in.instrs
	res.Segs = in.sch.segs
	res.Threads = len(in.sch.threads)
	switch pe.kind {
	case "gopanic":
		in.violation("panic", pe.msg, in.currentModelSafe())
	case "fatal":
		in.violation("fatal", pe.msg, in.currentModelSafe())
	case "deadlock":
		in.violation("deadlock", pe.msg, in.currentModelSafe())
	}
	return res
}

func (in *Interp) currentModelSafe() (m Model) {
	defer func() {
		if r := recover(); r != nil {
			m = nil
		}
	}()
	return in.currentModel()
}

// harnessFuncs returns the functions of pkg matching the regexp, sorted by name.
func harnessFuncs(pkg *ssa.Package, re *regexp.Regexp) []*ssa.Function {
	var out []*ssa.Function
	for name, m := range pkg.Members {
		if f, ok := m.(*ssa.Function); ok && strings.HasPrefix(name, "VerifH_") && re.MatchString(name) {
			out = append(out, f)
		}
	}
	sort.Slice(out, func(i, j int) bool { return out[i].Name() < out[j].Name() })
	return out
}
