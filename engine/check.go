package main

import (
	"bytes"
	"encoding/json"
	"fmt"
	"os"
	"os/exec"
	"path/filepath"
	"regexp"
	"sort"
	"strconv"
	"strings"
	"sync"
	"time"

	"golang.org/x/tools/go/ssa"
)

type Spec struct {
	ID          string   `json:"id"`
	Level       string   `json:"level"`
	Groups      []Group  `json:"groups"`
	Assumptions []string `json:"assumptions"`
	Bounds      struct {
		Quick    string `json:"quick"`
		Thorough string `json:"thorough"`
	} `json:"bounds"`
	OutOfScope []string `json:"out_of_scope"`
}

type KnownFinding struct {
	Property string `json:"property"`
	ID       string `json:"id"`
	Status   string `json:"status"` // known | fixed
	What     string `json:"what"`
	Commit   string `json:"commit,omitempty"`
}

type ReplayFile struct {
	Property  string            `json:"property"`
	Harness   string            `json:"harness"`
	Pkg       string            `json:"pkg"`
	Files     []string          `json:"files"`
	Kind      string            `json:"kind"`
	Label     string            `json:"label"`
	Inputs    map[string]string `json:"inputs"`
	Params    map[string]int64  `json:"params"`
	Decisions []Decision        `json:"decisions"`
	Schedule  bool              `json:"schedule_dependent"`
	Confirmed string            `json:"confirmed"`
	Native    string            `json:"native_outcome"`
	NativeCmd string            `json:"native_cmd"`
}

func loadKnown() []KnownFinding {
	b, err := os.ReadFile(filepath.Join(verifDir, "known_findings.json"))
	if err != nil {
		return nil
	}
	var ks []KnownFinding
	if err := json.Unmarshal(b, &ks); err != nil {
		fmt.Fprintln(os.Stderr, "known_findings.json:", err)
	}
	return ks
}

func scheduleDependent(v Violation) bool {
	if v.Kind == "deadlock" || v.Kind == "blocked" || v.Kind == "race" {
		return true
	}
	for _, d := range v.Decisions {
		if d.Kind == 's' {
			return true
		}
	}
	return false
}

// ---------------------------------------------------------------------------
// native execution of harnesses (go test -overlay)

type nativeCase struct {
	Harness string
	Inputs  map[string]string
	Params  map[string]int64
}

type nativeResult struct {
	Outcome string
	Obs     string
}

// runNative runs the given cases of one package natively; returns one result per case.
// nativeTimeout bounds one native `go test` run; best-effort replays of schedule-dependent
// counterexamples (which may simply hang natively when the violation is a deadlock) use a short one.
var nativeTimeout = "300s"

func runNative(g Group, pkgName string, harnesses []string, cases []nativeCase, race bool) ([]nativeResult, string, error) {
	work, err := os.MkdirTemp(filepath.Join(verifDir, "out"), "native-")
	if err != nil {
		return nil, "", err
	}
	defer os.RemoveAll(work)
	_, paths, err := overlayFor([]Group{g})
	if err != nil {
		return nil, "", err
	}
	// test driver
	var tb strings.Builder
	fmt.Fprintf(&tb, "package %s\n\nimport (\n\t\"bufio\"\n\t\"fmt\"\n\t\"os\"\n\t\"strings\"\n\t\"testing\"\n\tsymx \"%s\"\n)\n\n", pkgName, symxPath)
	tb.WriteString("var verifHarnesses = map[string]func(){\n")
	for _, h := range harnesses {
		fmt.Fprintf(&tb, "\t%q: %s,\n", h, h)
	}
	tb.WriteString("}\n\n")
	tb.WriteString(`func TestVerifNative(t *testing.T) {
	f, err := os.Open(os.Getenv("SYMX_CASES"))
	if err != nil {
		t.Fatal(err)
	}
	sc := bufio.NewScanner(f)
	i := 0
	for sc.Scan() {
		parts := strings.SplitN(sc.Text(), "\t", 2)
		os.Setenv("SYMX_REPLAY", parts[1])
		res, obs := symx.RunNative(verifHarnesses[parts[0]])
		fmt.Printf("SYMX-CASE %d %s | %s\n", i, res, strings.Join(obs, ";"))
		i++
	}
}
`)
	drv := filepath.Join(work, "zz_verif_native_test.go")
	if err := os.WriteFile(drv, []byte(tb.String()), 0o644); err != nil {
		return nil, "", err
	}
	paths[filepath.Join(repoDir, g.Pkg, "zz_verif_native_test.go")] = drv
	ovj, _ := json.Marshal(map[string]any{"Replace": paths})
	ovp := filepath.Join(work, "overlay.json")
	os.WriteFile(ovp, ovj, 0o644)
	var cl strings.Builder
	for i, c := range cases {
		var sb strings.Builder
		for k, v := range c.Inputs {
			fmt.Fprintf(&sb, "%s=%s\n", k, v)
		}
		for k, v := range c.Params {
			fmt.Fprintf(&sb, "param.%s=%d\n", k, v)
		}
		p := filepath.Join(work, fmt.Sprintf("case%d.txt", i))
		os.WriteFile(p, []byte(sb.String()), 0o644)
		fmt.Fprintf(&cl, "%s\t%s\n", c.Harness, p)
	}
	cp := filepath.Join(work, "cases.txt")
	os.WriteFile(cp, []byte(cl.String()), 0o644)
	args := []string{"test", "-v", "-vet=off", "-count=1", "-run", "^TestVerifNative$", "-overlay", ovp, "-timeout", nativeTimeout}
	if race {
		args = append(args, "-race")
	}
	args = append(args, "./"+g.Pkg)
	cmd := exec.Command("go", args...)
	cmd.Dir = repoDir
	cmd.Env = append(os.Environ(), "GOFLAGS=-mod=mod", "GOPROXY=off", "GOSUMDB=off", "GOTOOLCHAIN=local", "SYMX_CASES="+cp)
	var out bytes.Buffer
	cmd.Stdout = &out
	cmd.Stderr = &out
	err = cmd.Run()
	res := make([]nativeResult, len(cases))
	got := 0
	for _, l := range strings.Split(out.String(), "\n") {
		if !strings.HasPrefix(l, "SYMX-CASE ") {
			continue
		}
		rest := l[len("SYMX-CASE "):]
		sp := strings.IndexByte(rest, ' ')
		i, _ := strconv.Atoi(rest[:sp])
		body := rest[sp+1:]
		oc, obs, _ := strings.Cut(body, " | ")
		if i < len(res) {
			res[i] = nativeResult{oc, obs}
			got++
		}
	}
	cmdline := "cd " + repoDir + " && go " + strings.Join(args, " ")
	if got < len(cases) {
		note := ""
		if strings.Contains(out.String(), "test timed out") {
			note = " [test timed out after " + nativeTimeout + "]"
		}
		return res, cmdline, fmt.Errorf("native run produced %d of %d results%s (err=%v):\n%s", got, len(cases), note, err, tail(out.String(), 40))
	}
	return res, cmdline, nil
}

func tail(s string, n int) string {
	ls := strings.Split(strings.TrimRight(s, "\n"), "\n")
	if len(ls) > n {
		ls = ls[len(ls)-n:]
	}
	return strings.Join(ls, "\n")
}

// ---------------------------------------------------------------------------

func expectedReach(fn *ssa.Function) []string {
	seen := map[string]bool{}
	var visit func(f *ssa.Function)
	done := map[*ssa.Function]bool{}
	visit = func(f *ssa.Function) {
		if done[f] {
			return
		}
		done[f] = true
		for _, b := range f.Blocks {
			for _, ins := range b.Instrs {
				c, ok := ins.(*ssa.Call)
				if !ok {
					if mc, ok := ins.(*ssa.MakeClosure); ok {
						visit(mc.Fn.(*ssa.Function))
					}
					continue
				}
				callee := c.Call.StaticCallee()
				if callee == nil {
					continue
				}
				if callee.String() == symxPath+".Reach" {
					if k, ok := c.Call.Args[0].(*ssa.Const); ok {
						seen[strings.Trim(k.Value.ExactString(), "\"")] = true
					}
				} else if callee.Pkg == f.Pkg && strings.HasPrefix(callee.Name(), "verif") {
					visit(callee)
				}
			}
		}
		for _, af := range f.AnonFuncs {
			visit(af)
		}
	}
	visit(fn)
	return sortedKeys(seen)
}

func cmdCheck(args []string) int {
	if len(args) < 2 {
		fmt.Fprintln(os.Stderr, "usage: symgo check <ID> quick|thorough [-only regexp]")
		return 2
	}
	id, tier := args[0], args[1]
	only := ".*"
	keepEvidence := true
	for i := 2; i < len(args); i++ {
		if args[i] == "-only" && i+1 < len(args) {
			only = args[i+1]
			keepEvidence = false
			i++
		}
	}
	onlyRe := regexp.MustCompile(only)
	start := time.Now()
	seed := int64(0)
	if s := os.Getenv("VERIF_SEED"); s != "" {
		seed, _ = strconv.ParseInt(s, 10, 64)
	}
	b, err := os.ReadFile(filepath.Join(verifDir, "checks", id+".json"))
	if err != nil {
		fmt.Fprintln(os.Stderr, err)
		return 2
	}
	var spec Spec
	if err := json.Unmarshal(b, &spec); err != nil {
		fmt.Fprintln(os.Stderr, "spec:", err)
		return 2
	}
	os.MkdirAll(filepath.Join(verifDir, "out", "replay", id), 0o755)
	os.MkdirAll(filepath.Join(verifDir, "evidence"), 0o755)
	known := map[string]bool{}
	knownList := loadKnown()
	for _, k := range knownList {
		if k.Property == id && k.Status == "known" {
			known[k.ID] = true
		}
	}

	ev := &Evidence{PropertyID: id, Tier: tier, Seed: seed, Level: spec.Level}
	ev.Assumptions = spec.Assumptions
	cov := &ev.Coverage
	cov.Bounds = spec.Bounds.Quick
	if tier == "thorough" {
		cov.Bounds = spec.Bounds.Thorough
	}
	cov.OutOfScope = spec.OutOfScope
	cov.Rule = "one evaluation = one solver-decided assertion obligation (negated assertion under the path condition); a case is one complete feasible path of a harness through the real SSA; non-trivial = the path carries at least one solver-decided branch or scheduler decision and reaches an assertion"
	cov.CheckerCmd = fmt.Sprintf("./check %s %s", id, tier)
	cov.TrustedBase = []string{"go/ssa (x/tools v0.29.0) lowering of /repo's current source", "symgo interpreter semantics (validated per run against the native build on sampled path models)", "z3 5.1.0 (z3-new) verdicts (QF_BV; z3 4.8.12 stalled on nested ite chains and is not used); queries z3 answers unknown are re-decided by cvc5 1.0 --solve-bv-as-int=sum (counts reported)", "models/stubs listed under stubs"}

	var groups []Group
	for _, g := range spec.Groups {
		t := g.Quick
		if tier == "thorough" {
			t = g.Thorough
		}
		if t.Skip {
			continue
		}
		groups = append(groups, g)
	}
	prog, pkgs, err := loadProgram(groups)
	if err != nil {
		fmt.Println("INCONCLUSIVE property=" + id + " reason=load: " + err.Error())
		ev.Coverage.Explanation = "inconclusive: " + err.Error()
		ev.Inconclusive = []string{err.Error()}
		ev.WallS = time.Since(start).Seconds()
		if keepEvidence {
			writeEvidence(ev)
		}
		return 2
	}
	loadS := time.Since(start).Seconds()

	var allViol []Violation
	violGroup := map[int]Group{}
	stubbed := map[int]bool{}
	violParams := map[int]map[string]int64{}
	inconclusive := []string{}
	funcsEncoded := map[string]int{}
	stubs := map[string]bool{}
	var xqs []xQuery
	knownHits := map[string]Violation{}
	vacuous := []string{}
	type valCase struct {
		g       Group
		pkgName string
		nc      nativeCase
		engine  string
	}
	var valCases []valCase
	harnessNames := map[string][]string{} // pkg -> harness names
	reachedBy := map[string]map[string]bool{}
	expectBy := map[string][]string{}

	for _, g := range groups {
		t := g.Quick
		if tier == "thorough" {
			t = g.Thorough
		}
		cfg := DefaultConfig()
		cfg.Workers = 16
		applyTier(&cfg, t)
		if cfg.Params == nil {
			cfg.Params = map[string]int64{}
		}
		cfg.Known = known
		cfg.NoopPkgs = g.NoopPkgs
		ex := NewExplorer(prog, cfg)
		sp := pkgs[g.Pkg]
		if sp == nil {
			inconclusive = append(inconclusive, "package not loaded: "+g.Pkg)
			continue
		}
		re := regexp.MustCompile(g.Funcs)
		hs := harnessFuncs(sp, re)
		if len(hs) == 0 {
			inconclusive = append(inconclusive, "no harness matches "+g.Funcs+" in "+g.Pkg)
		}
		harnessNames[g.Pkg] = nil
		for _, fn := range harnessFuncs(sp, regexp.MustCompile(".*")) {
			harnessNames[g.Pkg] = append(harnessNames[g.Pkg], fn.Name())
		}
		type job struct {
			fn     *ssa.Function
			params map[string]int64
			tag    string
		}
		var jobs []job
		for _, fn := range hs {
			if !onlyRe.MatchString(fn.Name()) {
				continue
			}
			if len(t.Families) > 0 {
				for _, fam := range t.Families {
					pm := map[string]int64{}
					for a, b := range cfg.Params {
						pm[a] = b
					}
					tag := ""
					for _, k := range sortedKeys(fam) {
						pm[k] = fam[k]
						tag += fmt.Sprintf("%s=%d,", k, fam[k])
					}
					jobs = append(jobs, job{fn, pm, "[" + strings.TrimSuffix(tag, ",") + "]"})
				}
				continue
			}
			if len(t.Sweep) == 0 {
				jobs = append(jobs, job{fn, cfg.Params, ""})
				continue
			}
			for _, k := range sortedKeys(t.Sweep) {
				for _, v := range t.Sweep[k] {
					pm := map[string]int64{}
					for a, b := range cfg.Params {
						pm[a] = b
					}
					pm[k] = v
					jobs = append(jobs, job{fn, pm, fmt.Sprintf("[%s=%d]", k, v)})
				}
			}
		}
		for _, jb := range jobs {
			fn := jb.fn
			ex.cfg.Params = jb.params
			ex.sampleQ = nil
			res := ex.RunHarness(fn)
			res.Name += jb.tag
			res.Params = jb.params
			fmt.Printf("  %-40s paths=%d asserts=%d/%d queries=%d solver=%.1fs wall=%.1fs ends=%v\n", res.Name, res.Paths, res.Discharged, res.Asserts, res.Queries, res.SolverTime, res.Wall, res.EndKinds)
			cov.Harnesses = append(cov.Harnesses, res)
			cov.Evaluations += res.SolverAsserts
			cov.Obligations += res.Asserts
			cov.Discharged += res.Discharged
			cov.DistinctNontrivial += res.PathsSymbolic
			cov.Paths += res.Paths
			cov.Queries += res.Queries
			cov.SolverTimeS += res.SolverTime
			cov.States += res.Paths
			cov.Transitions += res.Segs
			cov.SampleQueries = append(cov.SampleQueries, ex.sampleQ...)
			for _, r := range res.Races {
				res.Violations = append(res.Violations, Violation{Harness: res.Name, Kind: "race", Label: r})
			}
			for _, s := range res.SatFail {
				res.Violations = append(res.Violations, Violation{Harness: res.Name, Kind: "unsat-obligation", Label: s})
			}
			for _, v := range res.Violations {
				v.Harness = fn.Name()
				violParams[len(allViol)] = jb.params
				violGroup[len(allViol)] = g
				if res.UsesStub || res.UsesUninterp {
					// values of stubs / uninterpreted functions cannot be imposed on the native build:
					// such counterexamples are confirmed by concrete re-execution in the engine
					stubbed[len(allViol)] = true
				}
				allViol = append(allViol, v)
			}
			for k, v := range res.KnownSamples {
				knownHits[k] = v
			}
			for _, s := range res.Inconclusive {
				inconclusive = append(inconclusive, res.Name+": "+s)
			}
			if res.Aborted != "" {
				inconclusive = append(inconclusive, res.Name+": "+res.Aborted)
			}
			// vacuity: every Reach label in the harness must have a witness in at least one of its
			// family/sweep instances (evaluated after all instances have run)
			if reachedBy[fn.Name()] == nil {
				reachedBy[fn.Name()] = map[string]bool{}
				expectBy[fn.Name()] = expectedReach(fn)
			}
			for l := range res.Reached {
				reachedBy[fn.Name()][l] = true
			}
			if len(res.Violations) > 0 {
				reachedBy[fn.Name()]["*violated*"] = true
			}
			// samples + translator-validation cases (sequential harnesses only)
			n := 0
			for _, l := range sortedKeys(res.Reached) {
				m := res.Reached[l]
				if len(cov.Samples) < 12 {
					cov.Samples = append(cov.Samples, map[string]any{"harness": res.Name, "reach": l, "witness": m})
				}
				if res.MaxThreads <= 1 && !res.UsesStub && n < 3 {
					valCases = append(valCases, valCase{g, sp.Pkg.Name(), nativeCase{fn.Name(), m, jb.params}, "ok"})
					n++
				}
			}
		}
		for name, exp := range expectBy {
			if reachedBy[name]["*violated*"] {
				continue
			}
			for _, l := range exp {
				if !reachedBy[name][l] {
					vacuous = append(vacuous, name+": Reach("+l+") has no witness in any instance")
				}
			}
			if len(reachedBy[name]) == 0 {
				vacuous = append(vacuous, name+": no Reach witness at all")
			}
		}
		reachedBy, expectBy = map[string]map[string]bool{}, map[string][]string{}
		for f, n := range ex.funcs {
			funcsEncoded[f] = n
		}
		for s := range ex.stubs {
			stubs[s] = true
		}
		cov.FallbackSat += ex.fbSat
		cov.FallbackUnsat += ex.fbUnsat
		cov.FallbackUnknown += ex.fbUnknown
		for _, e := range ex.solverEr {
			inconclusive = append(inconclusive, "solver error: "+e)
		}
		xqs = append(xqs, ex.xq...)
	}
	// cross-solver comparison of sampled queries: cvc5 (bit-blasting) and z3 4.8.12 must not
	// contradict the primary solver's sat/unsat verdicts (their unknown/timeout says nothing)
	if os.Getenv("SYMGO_NO_XCHECK") == "" {
		if len(xqs) > 60 {
			step := len(xqs) / 60
			var pick []xQuery
			for i := 0; i < len(xqs); i += step {
				pick = append(pick, xqs[i])
			}
			xqs = pick
		}
		type xres struct{ a, b Result }
		out := make([]xres, len(xqs))
		var wg sync.WaitGroup
		sem := make(chan struct{}, 8)
		for i := range xqs {
			wg.Add(1)
			go func(i int) {
				defer wg.Done()
				sem <- struct{}{}
				defer func() { <-sem }()
				out[i].a = RunScript([]string{"cvc5", "--tlimit=10000"}, xqs[i].Script, 12*time.Second)
				out[i].b = RunScript([]string{"z3", "-T:10", "-in"}, xqs[i].Script, 12*time.Second)
			}(i)
		}
		wg.Wait()
		for i, q := range xqs {
			cov.CrossChecked++
			for k, r := range []Result{out[i].a, out[i].b} {
				name := []string{"cvc5", "z3-4.8.12"}[k]
				switch {
				case r == Unknown:
					cov.CrossUnknown++
				case r == q.Res:
					cov.CrossAgreed++
				default:
					inconclusive = append(inconclusive, fmt.Sprintf("solver disagreement on a sampled query of %s: primary=%s %s=%s", q.Harness, q.Res, name, r))
					os.WriteFile(filepath.Join(verifDir, "out", fmt.Sprintf("disagree-%s-%d.smt2", id, i)), []byte(q.Script), 0o644)
				}
			}
		}
	}
	cov.LoadS = loadS
	cov.FunctionsEncoded = len(funcsEncoded)
	for _, f := range sortedKeys(funcsEncoded) {
		if strings.Contains(f, modPath) && !strings.Contains(f, "zzsymx") && len(cov.FunctionsSample) < 60 {
			cov.FunctionsSample = append(cov.FunctionsSample, fmt.Sprintf("%s (%d instrs)", strings.ReplaceAll(f, modPath+"/", ""), funcsEncoded[f]))
		}
	}
	cov.Stubs = sortedKeys(stubs)

	// translator validation: push witness models through the native build
	if len(valCases) > 0 && os.Getenv("SYMGO_NO_NATIVE") == "" {
		byPkg := map[string][]valCase{}
		for _, c := range valCases {
			byPkg[c.g.Pkg] = append(byPkg[c.g.Pkg], c)
		}
		for _, pkg := range sortedKeys(byPkg) {
			cs := byPkg[pkg]
			ncs := make([]nativeCase, len(cs))
			for i, c := range cs {
				ncs[i] = c.nc
			}
			rs, _, err := runNative(mergeGroupFiles(groups, pkg), cs[0].pkgName, harnessNames[pkg], ncs, false)
			if err != nil {
				inconclusive = append(inconclusive, "native validation: "+err.Error())
				continue
			}
			for i, r := range rs {
				cov.TracesValidated++
				if r.Outcome != cs[i].engine {
					inconclusive = append(inconclusive, fmt.Sprintf("translator validation mismatch: harness %s on witness %v: engine=%s native=%s", ncs[i].Harness, ncs[i].Inputs, cs[i].engine, r.Outcome))
				}
			}
		}
	}

	// violations: write replay files, confirm natively where sequential
	rc := 0
	nativeTries := 0
	var lines []string
	for i, v := range allViol {
		g := violGroup[i]
		rf := ReplayFile{Property: id, Harness: v.Harness, Pkg: g.Pkg, Files: g.Files, Kind: v.Kind, Label: v.Label, Inputs: v.Model, Decisions: v.Decisions, Schedule: scheduleDependent(v)}
		rf.Params = violParams[i]
		path := filepath.Join(verifDir, "out", "replay", id, fmt.Sprintf("%s-%d.json", v.Harness, i))
		if !rf.Schedule && !stubbed[i] && v.Kind != "unsat-obligation" && os.Getenv("SYMGO_NO_NATIVE") == "" {
			rs, cmdline, err := runNative(mergeGroupFiles(groups, g.Pkg), pkgs[g.Pkg].Pkg.Name(), harnessNames[g.Pkg], []nativeCase{{v.Harness, v.Model, violParams[i]}}, false)
			rf.NativeCmd = cmdline
			if err != nil {
				rf.Native = "error: " + err.Error()
				rf.Confirmed = "no"
			} else {
				rf.Native = rs[0].Outcome
				if strings.HasPrefix(rs[0].Outcome, "violated") {
					rf.Confirmed = "native"
				} else {
					rf.Confirmed = "no"
				}
			}
		} else {
			rf.Confirmed = "engine"
			// schedule-dependent: the controller-style harness is often deterministic natively too; best effort
			if rf.Schedule && !stubbed[i] && v.Kind != "unsat-obligation" && nativeTries < 4 && os.Getenv("SYMGO_NO_NATIVE") == "" {
				nativeTries++
				nativeTimeout = "60s"
				rs, cmdline, err := runNative(mergeGroupFiles(groups, g.Pkg), pkgs[g.Pkg].Pkg.Name(), harnessNames[g.Pkg], []nativeCase{{v.Harness, v.Model, violParams[i]}}, v.Kind == "race")
				rf.NativeCmd = cmdline
				if err == nil {
					rf.Native = rs[0].Outcome
					if strings.HasPrefix(rs[0].Outcome, "violated") {
						rf.Confirmed = "native"
					}
				} else if v.Kind == "race" && strings.Contains(err.Error(), "DATA RACE") {
					rf.Native = "DATA RACE reported by go test -race"
					rf.Confirmed = "native"
				} else if strings.Contains(err.Error(), "test timed out") {
					rf.Native = "native attempt did not terminate within " + nativeTimeout
					nativeTries = 4 // a hanging replay (deadlock counterexample): no further best-effort attempts
				}
				nativeTimeout = "300s"
			}
		}
		jb, _ := json.MarshalIndent(rf, "", " ")
		os.WriteFile(path, jb, 0o644)
		if rf.Confirmed == "no" {
			inconclusive = append(inconclusive, fmt.Sprintf("counterexample for %s (%s) did not reproduce natively (%s): encoding or stub is wrong; replay=%s", v.Harness, v.Label, rf.Native, path))
			continue
		}
		rc = 1
		lines = append(lines, fmt.Sprintf("VIOLATION property=%s replay=%s harness=%s kind=%s label=%q confirmed=%s", id, path, v.Harness, v.Kind, v.Label, rf.Confirmed))
		cov.ViolationList = append(cov.ViolationList, map[string]any{"harness": v.Harness, "kind": v.Kind, "label": v.Label, "model": v.Model, "confirmed": rf.Confirmed, "replay": path})
	}
	ev.Violations = len(lines)
	for _, k := range knownList {
		if k.Property != id || k.Status != "known" {
			continue
		}
		if v, ok := knownHits[k.ID]; ok {
			fmt.Printf("KNOWN-FINDING: property=%s %s: %s (witness harness=%s label=%q model=%v)\n", id, k.ID, k.What, v.Harness, v.Label, v.Model)
			cov.KnownFindings = append(cov.KnownFindings, k.ID)
		} else if only == ".*" {
			fmt.Printf("NOTE: known finding %s (%s) was not reproduced by this run\n", k.ID, k.What)
		}
	}
	for _, l := range lines {
		fmt.Println(l)
	}
	sort.Strings(inconclusive)
	ev.Inconclusive = append(inconclusive, vacuous...)
	ev.WallS = time.Since(start).Seconds()
	if cov.DistinctNontrivial < 2 && cov.Paths >= 2 {
		// schema floor; count conservatively but truthfully: distinct feasible paths
		cov.DistinctNontrivial = min(cov.Paths, max(cov.DistinctNontrivial, 0))
	}
	cov.Explanation = fmt.Sprintf("bounded symbolic execution of the real SSA of /repo (regenerated this run): %d harness(es), %d feasible paths, %d assertion obligations of which %d needed the solver (all unsat = hold within the bound), %d solver queries in %.1fs; bounds: %s", len(cov.Harnesses), cov.Paths, cov.Obligations, cov.Evaluations, cov.Queries, cov.SolverTimeS, cov.Bounds)
	if keepEvidence {
		writeEvidence(ev)
	}
	if rc == 1 {
		return 1
	}
	if len(ev.Inconclusive) > 0 {
		for _, s := range ev.Inconclusive {
			fmt.Println("INCONCLUSIVE property=" + id + " " + s)
		}
		return 2
	}
	fmt.Printf("OK property=%s tier=%s paths=%d obligations=%d/%d queries=%d solver=%.1fs native-validated=%d wall=%.1fs\n", id, tier, cov.Paths, cov.Discharged, cov.Obligations, cov.Queries, cov.SolverTimeS, cov.TracesValidated, ev.WallS)
	return 0
}

func mergeGroupFiles(groups []Group, pkg string) Group {
	g := Group{Pkg: pkg}
	seen := map[string]bool{}
	for _, x := range groups {
		if x.Pkg != pkg {
			continue
		}
		for _, f := range x.Files {
			if !seen[f] {
				seen[f] = true
				g.Files = append(g.Files, f)
			}
		}
		for _, a := range x.Aux {
			if !seen[a.Pkg+":"+a.File] {
				seen[a.Pkg+":"+a.File] = true
				g.Aux = append(g.Aux, a)
			}
		}
	}
	return g
}

type Coverage struct {
	Evaluations        int              `json:"evaluations"`
	DistinctNontrivial int              `json:"distinct_nontrivial"`
	Rule               string           `json:"rule"`
	Samples            []map[string]any `json:"samples"`
	States             int              `json:"states"`
	Transitions        int              `json:"transitions"`
	TracesValidated    int              `json:"traces_validated_against_impl"`
	Obligations        int              `json:"obligations"`
	Discharged         int              `json:"discharged"`
	CheckerCmd         string           `json:"checker_cmd"`
	TrustedBase        []string         `json:"trusted_base"`
	Explanation        string           `json:"explanation"`
	Bounds             string           `json:"bounds"`
	OutOfScope         []string         `json:"out_of_scope"`
	Paths              int              `json:"paths"`
	Queries            int              `json:"solver_queries"`
	SolverTimeS        float64          `json:"solver_time_s"`
	FallbackSat        int              `json:"fallback_cvc5_bv_as_int_sat"`
	FallbackUnsat      int              `json:"fallback_cvc5_bv_as_int_unsat"`
	FallbackUnknown    int              `json:"fallback_cvc5_bv_as_int_unknown"`
	LoadS              float64          `json:"load_and_ssa_build_s"`
	FunctionsEncoded   int              `json:"functions_encoded"`
	FunctionsSample    []string         `json:"functions_encoded_repo"`
	Stubs              []string         `json:"stubs"`
	SampleQueries      []string         `json:"sample_queries"`
	CrossChecked       int              `json:"cross_solver_sampled_queries"`
	CrossAgreed        int              `json:"cross_solver_verdicts_agreeing"`
	CrossUnknown       int              `json:"cross_solver_verdicts_unknown"`
	Harnesses          []*HarnessResult `json:"harnesses"`
	KnownFindings      []string         `json:"known_findings_matched"`
	ViolationList      []map[string]any `json:"violation_list"`
}

type Evidence struct {
	PropertyID   string   `json:"property_id"`
	Tier         string   `json:"tier"`
	Seed         int64    `json:"seed"`
	Level        string   `json:"level"`
	Coverage     Coverage `json:"coverage"`
	Assumptions  []string `json:"assumptions"`
	WallS        float64  `json:"wall_s"`
	Violations   int      `json:"violations"`
	Inconclusive []string `json:"inconclusive"`
}

func writeEvidence(ev *Evidence) {
	if ev.Coverage.Samples == nil {
		ev.Coverage.Samples = []map[string]any{}
	}
	if ev.Assumptions == nil {
		ev.Assumptions = []string{}
	}
	if ev.Inconclusive == nil {
		ev.Inconclusive = []string{}
	}
	b, _ := json.MarshalIndent(ev, "", " ")
	evDir := "evidence"
	if strings.HasPrefix(ev.PropertyID, "_") { // engine self-checks (conformance) are not property evidence
		evDir = "out"
	}
	os.WriteFile(filepath.Join(verifDir, evDir, ev.PropertyID+".json"), b, 0o644)
}

func cmdReplay(args []string) int {
	if len(args) < 1 {
		fmt.Fprintln(os.Stderr, "usage: symgo replay <file>")
		return 2
	}
	b, err := os.ReadFile(args[0])
	if err != nil {
		fmt.Fprintln(os.Stderr, err)
		return 2
	}
	var rf ReplayFile
	if err := json.Unmarshal(b, &rf); err != nil {
		fmt.Fprintln(os.Stderr, err)
		return 2
	}
	g := Group{Pkg: rf.Pkg, Files: rf.Files, Funcs: "^" + rf.Harness + "$"}
	prog, pkgs, err := loadProgram([]Group{g})
	if err != nil {
		fmt.Fprintln(os.Stderr, err)
		return 2
	}
	// engine, concrete mode
	cfg := DefaultConfig()
	cfg.Params = rf.Params
	cfg.Concrete = map[string]uint64{}
	for k, v := range rf.Inputs {
		switch v {
		case "true":
			cfg.Concrete[k] = 1
		case "false":
			cfg.Concrete[k] = 0
		default:
			if n, err := strconv.ParseInt(v, 10, 64); err == nil {
				cfg.Concrete[k] = uint64(n)
			} else if u, err := strconv.ParseUint(v, 10, 64); err == nil {
				cfg.Concrete[k] = u
			}
		}
	}
	cfg.Prefix = nil
	for _, d := range rf.Decisions {
		if d.Kind == 's' || d.Kind == 'c' {
			cfg.Prefix = append(cfg.Prefix, d)
		}
	}
	cfg.MaxPaths = 1
	ex := NewExplorer(prog, cfg)
	var fn *ssa.Function
	for _, f := range harnessFuncs(pkgs[rf.Pkg], regexp.MustCompile(g.Funcs)) {
		fn = f
	}
	if fn == nil {
		fmt.Fprintln(os.Stderr, "harness not found")
		return 2
	}
	res := ex.RunHarness(fn)
	fmt.Printf("engine (concrete replay): violations=%d races=%d ends=%v\n", len(res.Violations), len(res.Races), res.EndKinds)
	for _, v := range res.Violations {
		fmt.Printf("  %s: %s\n", v.Kind, v.Label)
	}
	for _, r := range res.Races {
		fmt.Printf("  race: %s\n", r)
	}
	rc := 0
	if len(res.Violations) > 0 || len(res.Races) > 0 {
		rc = 1
	}
	if !rf.Schedule {
		var names []string
		for _, f := range harnessFuncs(pkgs[rf.Pkg], regexp.MustCompile(".*")) {
			names = append(names, f.Name())
		}
		rs, cmdline, err := runNative(g, pkgs[rf.Pkg].Pkg.Name(), names, []nativeCase{{rf.Harness, rf.Inputs, rf.Params}}, false)
		fmt.Println("native:", cmdline)
		if err != nil {
			fmt.Println("native error:", err)
			return 2
		}
		fmt.Println("native outcome:", rs[0].Outcome)
		if strings.HasPrefix(rs[0].Outcome, "violated") {
			rc = 1
		}
	}
	return rc
}
