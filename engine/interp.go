package main

import (
	"math/bits"
	"fmt"
	"time"
	"go/constant"
	"go/token"
	"go/types"
	"math"
	"os"
	"strings"

	"golang.org/x/tools/go/ssa"
)

// ---------------------------------------------------------------------------
// Path-level control flow sentinels (Go panics, never visible to the program)

type pathEnd struct {
	kind string // "done", "assume", "infeasible", "unsupported", "unwind", "budget", "unknown", "deadlock", "kill"
	msg  string
}

type engineBug struct{ msg, istack, gstack string }

// innermost keeps the frames of a Go stack trace below the last "panic(" line.
func innermost(st string) string {
	ls := strings.Split(st, "\n")
	last := 0
	for i, l := range ls {
		if strings.HasPrefix(l, "panic(") {
			last = i
		}
	}
	ls = ls[last:]
	if len(ls) > 16 {
		ls = ls[:16]
	}
	return strings.Join(ls, "\n")
}

// goPanic is a panic of the interpreted program.
type goPanic struct {
	val   value // Iface
	where string
}

type Decision struct {
	Val    int
	N      int
	Forced bool
	Kind   byte // 'b' branch, 'c' choice, 's' scheduler, 'v' value
	Arg    uint64 // value-by-model decisions: the candidate value the options were built from
}

type fnInfo struct {
	index map[ssa.Value]int
	n     int
}

type deferred struct {
	fn   value
	args []value
	pos  token.Pos
}

type frame struct {
	fn        *ssa.Function
	caller    *frame
	locals    []value
	block     *ssa.BasicBlock
	prev      *ssa.BasicBlock
	defers    []deferred
	result    value
	panicking bool
	panicVal  any
	info      *fnInfo
	loops     map[int]int
	thread    *Thread
}

type Interp struct {
	ex     *Explorer
	prog   *ssa.Program
	ts     *TermStore
	solver *Solver
	fninfo map[*ssa.Function]*fnInfo
	extern map[string]externFn

	// per-path state
	pc        []*Term
	decisions []Decision
	prefix    []Decision
	pos       int
	model     Model
	eval      *Evaluator
	globals   map[*ssa.Global]*value
	nextID    int
	tolerant  bool
	instrs    int
	varSeq    map[string]int
	inputs    []*Term // named symbolic inputs in creation order
	inputTy   map[string]string
	res       *PathResult
	unwind    int
	mapOrderAll bool
	depth     int
	knownActive string
	forkIndex   bool
	pcSet       map[*Term]bool
	xxMemo      []xxEntry
	uncertain   bool
	pathStubs   map[string]value
	inited    map[*ssa.Package]bool

	// threads
	sch *Sched

	// harness-side hooks
	stubs map[string]bool
	trace []string
}

func (in *Interp) unsupported(what string) {
	panic(pathEnd{"unsupported", what})
}

func (in *Interp) info(fn *ssa.Function) *fnInfo {
	if fi, ok := in.fninfo[fn]; ok {
		return fi
	}
	fi := &fnInfo{index: map[ssa.Value]int{}}
	add := func(v ssa.Value) {
		fi.index[v] = fi.n
		fi.n++
	}
	for _, p := range fn.Params {
		add(p)
	}
	for _, p := range fn.FreeVars {
		add(p)
	}
	for _, b := range fn.Blocks {
		for _, ins := range b.Instrs {
			if v, ok := ins.(ssa.Value); ok {
				add(v)
			}
		}
	}
	in.fninfo[fn] = fi
	in.ex.noteFunc(fn)
	return fi
}

func (fr *frame) set(v ssa.Value, x value) { fr.locals[fr.info.index[v]] = x }

func (in *Interp) get(fr *frame, v ssa.Value) value {
	switch v := v.(type) {
	case *ssa.Const:
		return in.constVal(v)
	case *ssa.Global:
		return Ptr{p: in.global(v)}
	case *ssa.Function:
		return &Closure{fn: v}
	case *ssa.Builtin:
		return &Closure{bi: v}
	}
	i, ok := fr.info.index[v]
	if !ok {
		panic(fmt.Sprintf("get: no slot for %s (%T) in %s", v.Name(), v, fr.fn))
	}
	return fr.locals[i]
}

func (in *Interp) global(g *ssa.Global) *value {
	if p, ok := in.globals[g]; ok {
		return p
	}
	p := new(value)
	*p = in.zero(g.Type().(*types.Pointer).Elem())
	in.globals[g] = p
	if g.Pkg != nil && !in.inited[g.Pkg] {
		in.lazyInit(g.Pkg)
	}
	return p
}

// lazyInit runs the package initialiser of pkg the first time one of its
// globals is touched on a path, in tolerant mode: calls into other packages'
// init are skipped (they are initialised on their own first use), body-less or
// unsupported callees yield zero values.
func (in *Interp) lazyInit(pkg *ssa.Package) {
	in.inited[pkg] = true
	pp := pkg.Pkg.Path()
	if pp == "runtime" || pp == "syscall" || pp == "os" || pp == "reflect" || pp == "unsafe" || strings.HasPrefix(pp, "runtime/") || strings.HasPrefix(pp, "internal/") || strings.HasPrefix(pp, "golang.org/x/sys") {
		return
	}
	initFn := pkg.Func("init")
	if initFn == nil || initFn.Blocks == nil {
		return
	}
	if g, ok := pkg.Members["init$guard"].(*ssa.Global); ok {
		_ = g
	}
	saveT := in.tolerant
	in.tolerant = true
	// initialisers conceptually ran before main: their accesses are not subject to the race monitor
	saveM := in.sch.multi
	in.sch.multi = false
	defer func() {
		in.sch.multi = saveM || in.sch.multi
		in.tolerant = saveT
		if r := recover(); r != nil {
			if pe, ok := r.(pathEnd); ok && (pe.kind == "unsupported") {
				return
			}
			if _, ok := r.(*goPanic); ok {
				return
			}
			if eb, ok := r.(*engineBug); ok {
				in.ex.noteStub("init of " + pp + " aborted: " + eb.msg)
				return
			}
			panic(r)
		}
	}()
	in.callFn(nil, initFn, nil, nil)
}

func (in *Interp) constVal(c *ssa.Const) value {
	t := c.Type()
	if c.Value == nil {
		return in.zero(t)
	}
	switch u := under(t).(type) {
	case *types.Basic:
		switch {
		case u.Info()&types.IsBoolean != 0:
			return in.ts.Bool(constant.BoolVal(c.Value))
		case u.Info()&types.IsString != 0:
			return mkStr(in.ts, constant.StringVal(c.Value))
		case u.Info()&types.IsInteger != 0:
			w := basicWidth(u)
			if isSigned(u) {
				return in.ts.Const(w, uint64(c.Int64()))
			}
			return in.ts.Const(w, c.Uint64())
		case u.Info()&types.IsFloat != 0:
			f := c.Float64()
			if basicWidth(u) == 32 {
				return in.ts.Const(32, uint64(math.Float32bits(float32(f))))
			}
			return in.ts.Const(64, math.Float64bits(f))
		case u.Kind() == types.UnsafePointer:
			return Ptr{}
		}
	}
	in.unsupported("constant of type " + t.String())
	return nil
}

// ---------------------------------------------------------------------------
// Decisions

func (in *Interp) modelEval(t *Term) (bool, bool) {
	if in.eval == nil {
		return false, false
	}
	return in.eval.Eval(t) != 0, true
}

func (in *Interp) setModel(m Model) {
	in.model = m
	if m == nil {
		in.eval = nil
	} else {
		in.eval = NewEvaluator(m)
	}
}

// feasible asks the solver whether pc ∧ extra is satisfiable.
func (in *Interp) feasible(extra *Term) (Result, Model) {
	if extra.IsFalse() {
		return Unsat, nil
	}
	as := make([]*Term, 0, len(in.pc)+1)
	as = append(as, in.pc...)
	as = append(as, extra)
	r, m, err := in.solver.Check(as, in.inputs)
	if err != nil {
		in.ex.noteSolverError(err)
		if d := os.Getenv("SYMGO_DUMP_UNKNOWN"); d != "" {
			os.WriteFile(fmt.Sprintf("%s/error%d.smt2", d, len(as)), []byte(Standalone(as)), 0o644)
		}
		in.restartSolver()
		return Unknown, nil
	}
	in.ex.noteXQ(as, r)
	if r == Unknown && in.ex.cfg.FallbackMs > 0 {
		r2, m2, err := OneShot([]string{"cvc5", "--solve-bv-as-int=sum", fmt.Sprintf("--tlimit=%d", in.ex.cfg.FallbackMs)}, as, in.inputs, time.Duration(in.ex.cfg.FallbackMs)*time.Millisecond)
		in.ex.noteFallback(r2)
		if err == nil && r2 != Unknown {
			if r2 == Sat && m2 == nil {
				return Unknown, nil
			}
			in.solver.UnknownN--
			return r2, m2
		}
	}
	if r == Unknown {
		if d := os.Getenv("SYMGO_DUMP_UNKNOWN"); d != "" {
			in.ex.mu.Lock()
			in.ex.dumpN++
			n := in.ex.dumpN
			in.ex.mu.Unlock()
			if n <= 5 {
				os.WriteFile(fmt.Sprintf("%s/unknown%d.smt2", d, n), []byte(Standalone(as)), 0o644)
			}
		}
	}
	return r, m
}

func (in *Interp) restartSolver() {
	in.solver.Close()
	s, err := NewSolver(in.ex.cfg.Solver, in.ex.cfg.TimeoutMs)
	if err != nil {
		panic(err)
	}
	s.Queries, s.SatN, s.UnsatN, s.UnknownN, s.Time = in.solver.Queries, in.solver.SatN, in.solver.UnsatN, in.solver.UnknownN, in.solver.Time
	in.solver = s
}

// decide chooses among option conditions (Bool terms). Exactly the feasible
// ones are explored (unknown counts as feasible). Returns the chosen index
// and adds its condition to the path condition.
func (in *Interp) decide(opts []*Term, kind byte) int { return in.decideArg(opts, kind, 0) }

func (in *Interp) decideArg(opts []*Term, kind byte, arg uint64) int {
	// constant shortcut
	nTrue, last := 0, -1
	allConst := true
	for i, o := range opts {
		if o.IsTrue() {
			nTrue++
			last = i
		} else if !o.IsFalse() {
			allConst = false
		}
	}
	if allConst && nTrue == 1 {
		return last
	}
	if in.pos < len(in.prefix) {
		d := in.prefix[in.pos]
		in.pos++
		if d.N != len(opts) {
			panic(pathEnd{"replay-mismatch", fmt.Sprintf("decision %d: recorded %d options, now %d", in.pos-1, d.N, len(opts))})
		}
		in.decisions = append(in.decisions, d)
		in.addPC(opts[d.Val])
		return d.Val
	}
	in.depth++
	if in.depth > in.ex.cfg.MaxDecisions {
		panic(pathEnd{"budget", "decision depth"})
	}
	// literal already on the path condition: the decision is forced without a query
	if len(opts) == 2 {
		for i, o := range opts {
			if in.pcSet[o] {
				d := Decision{Val: i, N: 2, Forced: true, Kind: kind, Arg: arg}
				in.decisions = append(in.decisions, d)
				return i
			}
		}
	}
	// which options are feasible?
	type fe struct {
		i   int
		m   Model
		unk bool
	}
	var feas []fe
	known := -1
	if in.eval != nil {
		for i, o := range opts {
			if o.IsFalse() {
				continue
			}
			if in.eval.Eval(o) != 0 {
				known = i
				break
			}
		}
	}
	for i, o := range opts {
		if o.IsFalse() {
			continue
		}
		if i == known {
			feas = append(feas, fe{i, in.model, false})
			continue
		}
		if allConst {
			feas = append(feas, fe{i, in.model, false})
			continue
		}
		r, m := in.feasible(o)
		switch r {
		case Sat:
			feas = append(feas, fe{i, m, false})
		case Unknown:
			in.res.Unknowns++
			feas = append(feas, fe{i, nil, true})
		}
	}
	if len(feas) == 0 {
		panic(pathEnd{"infeasible", "no feasible option"})
	}
	base := append([]Decision(nil), in.decisions...)
	for _, f := range feas[1:] {
		p := append(append([]Decision(nil), base...), Decision{Val: f.i, N: len(opts), Kind: kind, Arg: arg})
		in.ex.push(&WorkItem{Prefix: p, Model: f.m, Uncertain: in.uncertain || f.unk})
	}
	if feas[0].unk {
		in.uncertain = true
	}
	d := Decision{Val: feas[0].i, N: len(opts), Forced: len(feas) == 1, Kind: kind, Arg: arg}
	in.decisions = append(in.decisions, d)
	in.addPC(opts[d.Val])
	if feas[0].i != known {
		in.setModel(feas[0].m)
	}
	return d.Val
}

func (in *Interp) addPC(t *Term) {
	if t.IsTrue() {
		return
	}
	in.pc = append(in.pc, t)
	in.pcSet[t] = true
}

// branch returns the direction taken on a Bool term.
func (in *Interp) branch(c *Term) bool {
	if c.IsConst() {
		return c.val != 0
	}
	return in.decide([]*Term{c, in.ts.Not(c)}, 'b') == 0
}

// chooseN: pure nondeterministic choice among n alternatives.
func (in *Interp) chooseN(n int, kind byte) int {
	if n <= 1 {
		return 0
	}
	opts := make([]*Term, n)
	for i := range opts {
		opts[i] = in.ts.True
	}
	// all-constant-true options: decide's shortcut needs exactly one true; bypass
	if in.pos < len(in.prefix) {
		d := in.prefix[in.pos]
		in.pos++
		if d.N != n {
			panic(pathEnd{"replay-mismatch", fmt.Sprintf("choice %d: recorded %d options, now %d", in.pos-1, d.N, n)})
		}
		in.decisions = append(in.decisions, d)
		return d.Val
	}
	in.depth++
	if in.depth > in.ex.cfg.MaxDecisions {
		panic(pathEnd{"budget", "decision depth"})
	}
	base := append([]Decision(nil), in.decisions...)
	for i := 1; i < n; i++ {
		p := append(append([]Decision(nil), base...), Decision{Val: i, N: n, Kind: kind})
		in.ex.push(&WorkItem{Prefix: p, Model: in.model, Uncertain: in.uncertain})
	}
	in.decisions = append(in.decisions, Decision{Val: 0, N: n, Kind: kind})
	return 0
}

// concretizeByModel forks over the feasible values of t one at a time: take t's value in the
// current model, fork "t == v" / "t != v", repeat on the second side.
func (in *Interp) concretizeByModel(t *Term, what string) *Term {
	if t.IsConst() {
		return t
	}
	for k := 0; k < in.ex.cfg.MaxFork; k++ {
		var v uint64
		if in.pos < len(in.prefix) {
			v = in.prefix[in.pos].Arg // replay: the candidate recorded with the decision
		} else {
			m := in.currentModel()
			if m == nil {
				in.res.Inconclusive = append(in.res.Inconclusive, what+": no model to concretize from")
				return t
			}
			v = NewEvaluator(m).Eval(t)
		}
		c := in.ts.Const(t.w, v)
		if in.decideArg([]*Term{in.ts.Eq(t, c), in.ts.Ne(t, c)}, 'v', v) == 0 {
			return c
		}
	}
	panic(pathEnd{"unwind", fmt.Sprintf("%s: more than %d feasible values", what, in.ex.cfg.MaxFork)})
}

// concretize forks over the feasible values of t (interpreted as signed
// int of its width) within [lo,hi]; values outside must be excluded by the
// caller beforehand. More than maxFork feasible values is an unwinding failure.
func (in *Interp) concretize(t *Term, lo, hi int64, what string) int64 {
	if t.IsConst() {
		return t.Int()
	}
	if hi-lo+1 > int64(in.ex.cfg.MaxFork) {
		return in.concretizeByModel(t, what).Int()
	}
	opts := make([]*Term, 0, hi-lo+1)
	for v := lo; v <= hi; v++ {
		opts = append(opts, in.ts.Eq(t, in.ts.Const(t.w, uint64(v))))
	}
	return lo + int64(in.decide(opts, 'v'))
}

// ---------------------------------------------------------------------------
// Panics of the interpreted program

func (in *Interp) runtimeError(msg string) value {
	return Iface{t: in.ex.runtimeErrT, v: Struct{mkStr(in.ts, "runtime error: "+msg)}}
}

func (in *Interp) goPanic(v value) {
	panic(&goPanic{val: v})
}

func (in *Interp) rtPanic(msg string) {
	in.goPanic(in.runtimeError(msg))
}

// ---------------------------------------------------------------------------
// Calls

func (in *Interp) callValue(caller *frame, fv value, args []value, pos token.Pos) value {
	c, ok := fv.(*Closure)
	if !ok || c == nil {
		if fv == nil || (ok && c == nil) {
			in.rtPanic("invalid memory address or nil pointer dereference (nil func)")
		}
		panic(fmt.Sprintf("cannot call %T", fv))
	}
	if c.bi != nil {
		return in.callBuiltin(caller, c.bi, args, pos)
	}
	if c.native != nil {
		return c.native(in, caller, args)
	}
	return in.callFn(caller, c.fn, args, c.env)
}

func (in *Interp) callFn(caller *frame, fn *ssa.Function, args []value, env []value) value {
	name := fn.String()
	if len(in.pathStubs) > 0 {
		if st, ok := in.pathStubs[name]; ok {
			in.ex.noteStub(name + " (harness stub)")
			return in.callValue(caller, st, args, 0)
		}
	}
	if fn.Parent() == nil {
		if ext, ok := in.extern[name]; ok {
			in.ex.noteStub(name)
			return ext(in, caller, fn, args)
		}
		if o := fn.Origin(); o != nil {
			if ext, ok := in.extern[o.String()]; ok {
				in.ex.noteStub(o.String())
				return ext(in, caller, fn, args)
			}
		}
		if ext := in.externByPkg(fn); ext != nil {
			return ext(in, caller, fn, args)
		}
	}
	if fn.Blocks == nil {
		if in.tolerant {
			return in.zero(fn.Signature.Results())
		}
		in.unsupported("no body for " + name)
	}
	if fn.TypeParams().Len() > 0 && len(fn.TypeArgs()) == 0 {
		in.unsupported("uninstantiated generic " + name)
	}
	fr := &frame{fn: fn, caller: caller, info: in.info(fn)}
	if caller != nil {
		fr.thread = caller.thread
	} else {
		fr.thread = in.sch.cur
	}
	fr.locals = make([]value, fr.info.n)
	for i, p := range fn.Params {
		fr.locals[fr.info.index[p]] = args[i]
	}
	for i, fv := range fn.FreeVars {
		fr.locals[fr.info.index[fv]] = env[i]
	}
	fr.block = fn.Blocks[0]
	in.callDepth(fr)
	for fr.block != nil {
		in.runFrame(fr)
	}
	return fr.result
}

func (in *Interp) callDepth(fr *frame) {
	d := 0
	for f := fr; f != nil; f = f.caller {
		d++
		if d > 400 {
			panic(pathEnd{"unwind", "call depth > 400 in " + fr.fn.String()})
		}
	}
}

func (in *Interp) runDefers(fr *frame) {
	for len(fr.defers) > 0 {
		d := fr.defers[len(fr.defers)-1]
		fr.defers = fr.defers[:len(fr.defers)-1]
		in.runDefer(fr, d)
	}
	if fr.panicking {
		panic(fr.panicVal)
	}
}

func (in *Interp) runDefer(fr *frame, d deferred) {
	ok := false
	defer func() {
		if !ok {
			r := recover()
			if pe, isEnd := r.(pathEnd); isEnd {
				panic(pe)
			}
			// deferred call started a new panic
			fr.panicking = true
			fr.panicVal = r
		}
	}()
	in.callValue(fr, d.fn, d.args, d.pos)
	ok = true
}

func (in *Interp) runFrame(fr *frame) {
	defer func() {
		if fr.block == nil {
			return
		}
		r := recover()
		if r == nil {
			return
		}
		switch rr := r.(type) {
		case pathEnd:
			panic(r)
		case *goPanic:
		case *engineBug:
			panic(r)
		default:
			// engine bug: surface with context (captured once, at the innermost frame)
			var sb strings.Builder
			for f := fr; f != nil; f = f.caller {
				sb.WriteString("\n    in " + f.fn.String())
				if in.sch.curPos != nil && f == fr {
					sb.WriteString(" at " + in.posStr(in.sch.curPos.Pos()) + ": " + in.sch.curPos.String())
				}
			}
			panic(&engineBug{msg: fmt.Sprint(rr), istack: sb.String(), gstack: innermost(stackTrace())})
		}
		fr.panicking = true
		fr.panicVal = r
		in.runDefers(fr)
		// recovered
		fr.block = fr.fn.Recover
		if fr.block == nil {
			fr.result = in.zero(fr.fn.Signature.Results())
		}
	}()
	for {
		b := fr.block
		// phis
		nphi := 0
		for _, ins := range b.Instrs {
			if _, ok := ins.(*ssa.Phi); !ok {
				break
			}
			nphi++
		}
		if nphi > 0 {
			pi := -1
			for i, p := range b.Preds {
				if p == fr.prev {
					pi = i
					break
				}
			}
			tmp := make([]value, nphi)
			for i := 0; i < nphi; i++ {
				tmp[i] = in.get(fr, b.Instrs[i].(*ssa.Phi).Edges[pi])
			}
			for i := 0; i < nphi; i++ {
				fr.set(b.Instrs[i].(*ssa.Phi), tmp[i])
			}
		}
		for _, ins := range b.Instrs[nphi:] {
			in.instrs++
			if in.instrs > in.ex.cfg.MaxInstrs {
				panic(pathEnd{"budget", "instruction budget"})
			}
			if in.tolerant && fr.fn.Synthetic != "" && fr.fn.Name() == "init" {
				if in.tolerantVisit(fr, ins) {
					break
				}
				continue
			}
			if in.visit(fr, ins) {
				break
			}
		}
		if fr.block == nil {
			return
		}
	}
}

func (in *Interp) jump(fr *frame, to *ssa.BasicBlock) {
	if to.Index <= fr.block.Index {
		if fr.loops == nil {
			fr.loops = map[int]int{}
		}
		fr.loops[to.Index]++
		if fr.loops[to.Index] > in.unwind {
			panic(pathEnd{"unwind", fmt.Sprintf("loop bound %d exceeded in %s", in.unwind, fr.fn)})
		}
		// a new iteration of an outer loop restarts the count of the loops nested in it
		for k := range fr.loops {
			if k > to.Index {
				delete(fr.loops, k)
			}
		}
	}
	fr.prev, fr.block = fr.block, to
}

func deref(t types.Type) types.Type {
	if p, ok := under(t).(*types.Pointer); ok {
		return p.Elem()
	}
	panic("deref of non-pointer " + t.String())
}

// visit executes one instruction; returns true when the frame is done with the
// current block (jump/return).
func (in *Interp) visit(fr *frame, instr ssa.Instruction) bool {
	ts := in.ts
	in.sch.curPos = instr
	switch ins := instr.(type) {
	case *ssa.DebugRef:
	case *ssa.UnOp:
		fr.set(ins, in.unop(fr, ins))
	case *ssa.BinOp:
		fr.set(ins, in.binop(ins.Op, ins.X.Type(), ins.Y.Type(), in.get(fr, ins.X), in.get(fr, ins.Y)))
	case *ssa.Call:
		fn, args := in.prepareCall(fr, &ins.Call)
		if in.tolerant && fr.fn.Synthetic != "" && fr.fn.Name() == "init" {
			fr.set(ins, in.tolerantCall(fr, ins, fn, args))
		} else {
			fr.set(ins, in.callValue(fr, fn, args, ins.Pos()))
		}
	case *ssa.ChangeInterface:
		fr.set(ins, in.get(fr, ins.X))
	case *ssa.ChangeType:
		fr.set(ins, in.get(fr, ins.X))
	case *ssa.Convert:
		fr.set(ins, in.conv(ins.Type(), ins.X.Type(), in.get(fr, ins.X)))
	case *ssa.MultiConvert:
		fr.set(ins, in.conv(ins.Type(), ins.X.Type(), in.get(fr, ins.X)))
	case *ssa.SliceToArrayPointer:
		s := in.get(fr, ins.X).(Slice)
		n := int(under(deref(ins.Type())).(*types.Array).Len())
		if len(s.a) < n {
			in.rtPanic("cannot convert slice to array pointer: length too short")
		}
		if s.isNil {
			fr.set(ins, Ptr{})
		} else {
			// alias: an Array header over the same slots is not expressible; copy-free
			// aliasing is needed rarely — unsupported.
			in.unsupported("slice to array pointer")
		}
	case *ssa.MakeInterface:
		fr.set(ins, Iface{t: ins.X.Type(), v: in.get(fr, ins.X)})
	case *ssa.Extract:
		fr.set(ins, in.get(fr, ins.Tuple).(Tuple)[ins.Index])
	case *ssa.Slice:
		fr.set(ins, in.sliceOp(fr, ins))
	case *ssa.Return:
		switch len(ins.Results) {
		case 0:
		case 1:
			fr.result = in.get(fr, ins.Results[0])
		default:
			res := make(Tuple, len(ins.Results))
			for i, r := range ins.Results {
				res[i] = in.get(fr, r)
			}
			fr.result = res
		}
		fr.block = nil
		return true
	case *ssa.RunDefers:
		in.runDefers(fr)
	case *ssa.Panic:
		in.goPanic(in.get(fr, ins.X))
	case *ssa.Send:
		in.chanSend(fr, in.get(fr, ins.Chan).(*Chan), in.get(fr, ins.X))
	case *ssa.Store:
		in.store(fr, in.get(fr, ins.Addr).(Ptr), in.get(fr, ins.Val))
	case *ssa.If:
		c := in.get(fr, ins.Cond).(*Term)
		if in.branch(c) {
			in.jump(fr, fr.block.Succs[0])
		} else {
			in.jump(fr, fr.block.Succs[1])
		}
		return true
	case *ssa.Jump:
		in.jump(fr, fr.block.Succs[0])
		return true
	case *ssa.Defer:
		if ins.DeferStack != nil {
			in.unsupported("defer stack (range-over-func)")
		}
		fn, args := in.prepareCall(fr, &ins.Call)
		fr.defers = append(fr.defers, deferred{fn, args, ins.Pos()})
	case *ssa.Go:
		fn, args := in.prepareCall(fr, &ins.Call)
		in.spawn(fr, fn, args, "")
	case *ssa.MakeChan:
		sz := in.get(fr, ins.Size).(*Term)
		n := in.concretize(sz, 0, 64, "make(chan) size")
		fr.set(ins, in.newChan(int(n), under(ins.Type()).(*types.Chan).Elem()))
	case *ssa.Alloc:
		p := new(value)
		*p = in.zero(deref(ins.Type()))
		fr.set(ins, Ptr{p: p})
	case *ssa.MakeSlice:
		fr.set(ins, in.makeSlice(fr, ins))
	case *ssa.MakeMap:
		mt := under(ins.Type()).(*types.Map)
		in.nextID++
		fr.set(ins, &Map{kt: mt.Key(), vt: mt.Elem(), id: in.nextID})
	case *ssa.Range:
		fr.set(ins, in.rangeIter(fr, in.get(fr, ins.X), ins.X.Type()))
	case *ssa.Next:
		fr.set(ins, in.next(fr, in.get(fr, ins.Iter).(*Iter), ins))
	case *ssa.FieldAddr:
		p := in.get(fr, ins.X).(Ptr)
		if p.IsNil() {
			in.rtPanic("invalid memory address or nil pointer dereference")
		}
		if p.arr != nil {
			in.unsupported("field of symbolic element pointer")
		}
		fr.set(ins, Ptr{p: &(*p.p).(Struct)[ins.Field]})
	case *ssa.Field:
		fr.set(ins, in.get(fr, ins.X).(Struct)[ins.Field])
	case *ssa.IndexAddr:
		fr.set(ins, in.indexAddr(fr, ins))
	case *ssa.Index:
		fr.set(ins, in.index(fr, ins))
	case *ssa.Lookup:
		fr.set(ins, in.lookup(fr, ins))
	case *ssa.MapUpdate:
		m := in.get(fr, ins.Map).(*Map)
		if m == nil {
			in.rtPanic("assignment to entry in nil map")
		}
		in.mapUpdate(fr, m, in.get(fr, ins.Key), in.get(fr, ins.Value))
	case *ssa.TypeAssert:
		fr.set(ins, in.typeAssert(ins, in.get(fr, ins.X).(Iface)))
	case *ssa.MakeClosure:
		env := make([]value, len(ins.Bindings))
		for i, b := range ins.Bindings {
			env[i] = in.get(fr, b)
		}
		fr.set(ins, &Closure{fn: ins.Fn.(*ssa.Function), env: env})
	case *ssa.Select:
		fr.set(ins, in.selectOp(fr, ins))
	default:
		in.unsupported(fmt.Sprintf("instruction %T", instr))
	}
	_ = ts
	return false
}

// tolerantVisit: inside a package initialiser run in tolerant mode, an instruction that panics or is
// unsupported yields the zero value of its type and initialisation continues with the next one.
func (in *Interp) tolerantVisit(fr *frame, ins ssa.Instruction) (done bool) {
	defer func() {
		if r := recover(); r != nil {
			_, isPanic := r.(*goPanic)
			pe, isEnd := r.(pathEnd)
			if eb, ok := r.(*engineBug); ok {
				in.ex.noteStub("tolerant init of " + fr.fn.Pkg.Pkg.Path() + ": skipped instruction (" + eb.msg + ")")
				isPanic = true
			}
			if isPanic || (isEnd && pe.kind == "unsupported") {
				if v, ok := ins.(ssa.Value); ok {
					func() {
						defer func() { recover() }()
						fr.set(v, in.zero(v.Type()))
					}()
				}
				done = false
				return
			}
			panic(r)
		}
	}()
	return in.visit(fr, ins)
}

func (in *Interp) tolerantCall(fr *frame, ins *ssa.Call, fn value, args []value) (res value) {
	if c, ok := fn.(*Closure); ok && c != nil && c.fn != nil && c.fn.Name() == "init" && c.fn.Synthetic != "" {
		return nil // other packages are initialised lazily
	}
	defer func() {
		if r := recover(); r != nil {
			if pe, ok := r.(pathEnd); ok && pe.kind == "unsupported" {
				res = in.zero(ins.Call.Signature().Results())
				return
			}
			if _, ok := r.(*goPanic); ok {
				res = in.zero(ins.Call.Signature().Results())
				return
			}
			panic(r)
		}
	}()
	return in.callValue(fr, fn, args, ins.Pos())
}

func (in *Interp) prepareCall(fr *frame, call *ssa.CallCommon) (value, []value) {
	v := in.get(fr, call.Value)
	var args []value
	var fn value
	if call.Method == nil {
		fn = v
	} else {
		recv := v.(Iface)
		if recv.t == nil {
			in.rtPanic("invalid memory address or nil pointer dereference (method on nil interface)")
		}
		f := in.prog.LookupMethod(recv.t, call.Method.Pkg(), call.Method.Name())
		if f == nil {
			panic(fmt.Sprintf("method set for dynamic type %v does not contain %s", recv.t, call.Method))
		}
		fn = &Closure{fn: f}
		args = append(args, recv.v)
	}
	for _, a := range call.Args {
		args = append(args, in.get(fr, a))
	}
	return fn, args
}

func isOpaqueT(t types.Type) bool {
	n, ok := t.(*types.Named)
	return ok && n.Obj().Pkg() != nil && n.Obj().Pkg().Path() == "verif/opaque"
}

// ---------------------------------------------------------------------------
// Memory

func (in *Interp) load(fr *frame, p Ptr) value {
	if p.arr != nil {
		return in.loadSym(p)
	}
	if p.p == nil {
		in.rtPanic("invalid memory address or nil pointer dereference")
	}
	in.sch.noteRead(p.p)
	return copyVal(*p.p)
}

func (in *Interp) loadSym(p Ptr) value {
	n := len(p.arr)
	v, ok := in.muxIndex(p.idx, n, func(i int) value { return p.arr[i] })
	if !ok {
		in.unsupported("symbolic index over non-scalar elements")
	}
	for i := range p.arr {
		in.sch.noteRead(&p.arr[i])
	}
	return v
}

func (in *Interp) store(fr *frame, p Ptr, v value) {
	if p.arr != nil {
		w := p.idx.w
		for i := range p.arr {
			nv, ok := in.iteVal(in.ts.Eq(p.idx, in.ts.Const(w, uint64(i))), v, p.arr[i])
			if !ok {
				in.unsupported("symbolic index store over non-scalar elements")
			}
			in.sch.noteWrite(&p.arr[i])
			p.arr[i] = nv
		}
		return
	}
	if p.p == nil {
		in.rtPanic("invalid memory address or nil pointer dereference")
	}
	in.sch.noteWrite(p.p)
	storeInto(p.p, v)
}

func scalarElems(a []value) bool {
	for _, x := range a {
		switch x.(type) {
		case *Term:
		default:
			return false
		}
	}
	return true
}

// inRange: branches on 0 <= idx < n (idx has signed Go int semantics of its width).
func (in *Interp) checkIndex(idx *Term, n int, signed bool) *Term {
	// normalise to 64 bits
	var i64 *Term
	if signed {
		i64 = in.ts.SExt(idx, 64)
	} else {
		i64 = in.ts.ZExt(idx, 64)
	}
	ok := in.ts.Cmp(OpULt, i64, in.ts.Const(64, uint64(n)))
	if !in.branch(ok) {
		in.rtPanic(fmt.Sprintf("index out of range [%s] with length %d", i64, n))
	}
	return i64
}

func idxSigned(t types.Type) bool {
	b, ok := under(t).(*types.Basic)
	return ok && isSigned(b)
}

func (in *Interp) elemPtr(a []value, idx *Term, what string) Ptr {
	if idx.IsConst() {
		return Ptr{p: &a[idx.val]}
	}
	if len(a) == 1 {
		return Ptr{p: &a[0]}
	}
	if in.forkIndex {
		k := in.concretizeByModel(idx, what)
		return Ptr{p: &a[k.val]}
	}
	if scalarElems(a) && len(a) <= in.ex.cfg.MaxSymArray {
		return Ptr{arr: a, idx: idx}
	}
	k := in.concretize(idx, 0, int64(len(a)-1), what)
	return Ptr{p: &a[k]}
}

func (in *Interp) indexAddr(fr *frame, ins *ssa.IndexAddr) value {
	x := in.get(fr, ins.X)
	idx := in.get(fr, ins.Index).(*Term)
	var a []value
	switch x := x.(type) {
	case Slice:
		a = x.a
	case Ptr:
		if x.IsNil() {
			in.rtPanic("invalid memory address or nil pointer dereference")
		}
		if x.arr != nil {
			in.unsupported("index of symbolic element pointer")
		}
		a = (*x.p).(Array)
	default:
		panic(fmt.Sprintf("IndexAddr on %T", x))
	}
	i64 := in.checkIndex(idx, len(a), idxSigned(ins.Index.Type()))
	return in.elemPtr(a, i64, "IndexAddr")
}

func (in *Interp) index(fr *frame, ins *ssa.Index) value {
	x := in.get(fr, ins.X)
	idx := in.get(fr, ins.Index).(*Term)
	switch x := x.(type) {
	case Array:
		i64 := in.checkIndex(idx, len(x), idxSigned(ins.Index.Type()))
		p := in.elemPtr(x, i64, "Index")
		if p.arr != nil {
			return in.loadSym(p)
		}
		return copyVal(*p.p)
	case Str:
		i64 := in.checkIndex(idx, len(x.b), idxSigned(ins.Index.Type()))
		return in.strIndex(x, i64)
	}
	panic(fmt.Sprintf("Index on %T", x))
}

func (in *Interp) strIndex(s Str, i64 *Term) *Term {
	if i64.IsConst() {
		return s.b[i64.val]
	}
	n := len(s.b)
	v, _ := in.muxIndex(i64, n, func(i int) value { return s.b[i] })
	return v.(*Term)
}

// muxIndex selects element idx of n (the caller has already established idx < n on this path): a
// balanced multiplexer over the low bits of idx — one-bit selectors and shared subtrees instead of
// n full-width equality tests.
func (in *Interp) muxIndex(idx *Term, n int, elem func(i int) value) (value, bool) {
	ts := in.ts
	k := bits.Len(uint(n - 1))
	ok := true
	var mux func(bit, base int) value
	mux = func(bit, base int) value {
		if base >= n {
			return elem(n - 1)
		}
		if bit < 0 {
			return elem(base)
		}
		t0 := mux(bit-1, base)
		if base|1<<uint(bit) >= n {
			return t0
		}
		t1 := mux(bit-1, base|1<<uint(bit))
		if a, isT := t0.(*Term); isT {
			if b, isT := t1.(*Term); isT && a == b {
				return t0
			}
		}
		sel := ts.Eq(ts.Extract(idx, bit, bit), ts.Const(1, 1))
		v, o := in.iteVal(sel, t1, t0)
		if !o {
			ok = false
			return t0
		}
		return v
	}
	return mux(k-1, 0), ok
}

func (in *Interp) makeSlice(fr *frame, ins *ssa.MakeSlice) value {
	lt := in.get(fr, ins.Len).(*Term)
	ct := in.get(fr, ins.Cap).(*Term)
	lt = in.toInt64(lt, ins.Len.Type())
	ct = in.toInt64(ct, ins.Cap.Type())
	// negative / too large
	maxN := int64(in.ex.cfg.MaxAlloc)
	if !in.branch(in.ts.Cmp(OpSLe, in.ts.Const(64, 0), lt)) {
		in.rtPanic("makeslice: len out of range")
	}
	if !in.branch(in.ts.Cmp(OpSLe, lt, ct)) {
		in.rtPanic("makeslice: cap out of range")
	}
	if !ct.IsConst() {
		if !in.branch(in.ts.Cmp(OpSLe, ct, in.ts.Const(64, uint64(maxN)))) {
			panic(pathEnd{"unwind", fmt.Sprintf("make: symbolic size may exceed allocation cap %d", maxN)})
		}
	} else if ct.Int() > maxN {
		if ct.Int() > 1<<40 {
			in.rtPanic("makeslice: len out of range")
		}
		panic(pathEnd{"unwind", fmt.Sprintf("make: size %d exceeds allocation cap %d", ct.Int(), maxN)})
	}
	c := in.concretize(ct, 0, maxN, "make cap")
	l := in.concretize(lt, 0, c, "make len")
	et := under(ins.Type()).(*types.Slice).Elem()
	a := make([]value, c)
	z := in.zero(et)
	for i := range a {
		a[i] = copyVal(z)
	}
	return Slice{a: a[:l]}
}

func (in *Interp) toInt64(t *Term, ty types.Type) *Term {
	if t.w == 64 {
		return t
	}
	if idxSigned(ty) {
		return in.ts.SExt(t, 64)
	}
	return in.ts.ZExt(t, 64)
}

func (in *Interp) sliceOp(fr *frame, ins *ssa.Slice) value {
	x := in.get(fr, ins.X)
	var lo, hi, mx *Term
	if ins.Low != nil {
		lo = in.toInt64(in.get(fr, ins.Low).(*Term), ins.Low.Type())
	}
	if ins.High != nil {
		hi = in.toInt64(in.get(fr, ins.High).(*Term), ins.High.Type())
	}
	if ins.Max != nil {
		mx = in.toInt64(in.get(fr, ins.Max).(*Term), ins.Max.Type())
	}
	ts := in.ts
	var length, capacity int
	var a []value
	var str *Str
	isNil := false
	switch x := x.(type) {
	case Slice:
		a = x.a[:cap(x.a)]
		length, capacity = len(x.a), cap(x.a)
		isNil = x.isNil
	case Str:
		str = &x
		length, capacity = len(x.b), len(x.b)
	case Ptr: // *array
		if x.IsNil() {
			in.rtPanic("invalid memory address or nil pointer dereference")
		}
		a = (*x.p).(Array)
		length, capacity = len(a), len(a)
	default:
		panic(fmt.Sprintf("slice of %T", x))
	}
	if lo == nil {
		lo = ts.Const(64, 0)
	}
	if hi == nil {
		hi = ts.Const(64, uint64(length))
	}
	limit := capacity
	if mx != nil {
		// 0 <= lo <= hi <= max <= cap
		if !in.branch(ts.Cmp(OpULe, mx, ts.Const(64, uint64(capacity)))) {
			in.rtPanic("slice bounds out of range [::max] with capacity")
		}
		m := in.concretize(mx, 0, int64(capacity), "slice max")
		limit = int(m)
	}
	if !in.branch(ts.Cmp(OpULe, hi, ts.Const(64, uint64(limit)))) {
		in.rtPanic(fmt.Sprintf("slice bounds out of range [:%s] with capacity %d", hi, limit))
	}
	if !in.branch(ts.Cmp(OpULe, lo, hi)) {
		in.rtPanic(fmt.Sprintf("slice bounds out of range [%s:%s]", lo, hi))
	}
	if str != nil && !in.forkIndex && !lo.IsConst() {
		// constant-width window at a symbolic offset of an (immutable) string: no fork per
		// offset, each byte is a select over the string
		if k, ok := constDiff(hi, lo); ok && k >= 0 && k <= 16 && len(str.b) > 0 && len(str.b) <= 512 {
			b := make([]*Term, k)
			for j := range b {
				b[j] = in.strIndex(*str, ts.Bin(OpAdd, lo, ts.Const(64, uint64(j))))
			}
			return Str{b}
		}
	}
	h := int(in.concretize(hi, 0, int64(limit), "slice high"))
	l := int(in.concretize(lo, 0, int64(h), "slice low"))
	if str != nil {
		return Str{str.b[l:h]}
	}
	if isNil {
		return Slice{isNil: true}
	}
	return Slice{a: a[l:h:limit]}
}

// constDiff reports hi-lo when both are the same term plus constants.
func constDiff(hi, lo *Term) (int64, bool) {
	split := func(t *Term) (*Term, uint64) {
		if t.op == OpAdd && t.a[1].op == OpConst {
			return t.a[0], t.a[1].val
		}
		return t, 0
	}
	hx, hc := split(hi)
	lx, lc := split(lo)
	if hx != lx {
		return 0, false
	}
	return int64(hc - lc), true
}

// ---------------------------------------------------------------------------
// Operators

func (in *Interp) unop(fr *frame, ins *ssa.UnOp) value {
	x := in.get(fr, ins.X)
	switch ins.Op {
	case token.MUL:
		return in.load(fr, x.(Ptr))
	case token.NOT:
		return in.ts.Not(x.(*Term))
	case token.SUB:
		t := x.(*Term)
		if b, ok := under(ins.X.Type()).(*types.Basic); ok && isFloat(b) {
			return in.floatUn(b, t)
		}
		return in.ts.Neg(t)
	case token.XOR:
		return in.ts.BNot(x.(*Term))
	case token.ARROW:
		return in.chanRecv(fr, x.(*Chan), ins.CommaOk)
	}
	in.unsupported("unop " + ins.Op.String())
	return nil
}

func (in *Interp) binop(op token.Token, xt, yt types.Type, x, y value) value {
	ts := in.ts
	switch op {
	case token.EQL:
		return in.equals(xt, x, y)
	case token.NEQ:
		return ts.Not(in.equals(xt, x, y))
	}
	if xs, ok := x.(Str); ok {
		ys := y.(Str)
		switch op {
		case token.ADD:
			r := make([]*Term, 0, len(xs.b)+len(ys.b))
			r = append(r, xs.b...)
			r = append(r, ys.b...)
			return Str{r}
		case token.LSS:
			return in.strLess(xs, ys, false)
		case token.LEQ:
			return in.strLess(xs, ys, true)
		case token.GTR:
			return in.strLess(ys, xs, false)
		case token.GEQ:
			return in.strLess(ys, xs, true)
		}
		in.unsupported("string op " + op.String())
	}
	a, ok := x.(*Term)
	if !ok {
		in.unsupported(fmt.Sprintf("binop %s on %T", op, x))
	}
	b := y.(*Term)
	bt := under(xt).(*types.Basic)
	if isFloat(bt) {
		return in.floatBin(op, bt, a, b)
	}
	if bt.Info()&types.IsBoolean != 0 {
		switch op {
		case token.AND, token.LAND:
			return ts.And(a, b)
		case token.OR, token.LOR:
			return ts.Or(a, b)
		}
		in.unsupported("bool op " + op.String())
	}
	signed := isSigned(bt)
	switch op {
	case token.ADD:
		return ts.Bin(OpAdd, a, b)
	case token.SUB:
		return ts.Bin(OpSub, a, b)
	case token.MUL:
		return ts.Bin(OpMul, a, b)
	case token.QUO, token.REM:
		if in.branch(ts.Eq(b, ts.Const(b.w, 0))) {
			in.rtPanic("integer divide by zero")
		}
		switch {
		case op == token.QUO && signed:
			return ts.Bin(OpSDiv, a, b)
		case op == token.QUO:
			return ts.Bin(OpUDiv, a, b)
		case signed:
			return ts.Bin(OpSRem, a, b)
		default:
			return ts.Bin(OpURem, a, b)
		}
	case token.AND:
		return ts.Bin(OpBAnd, a, b)
	case token.OR:
		return ts.Bin(OpBOr, a, b)
	case token.XOR:
		return ts.Bin(OpBXor, a, b)
	case token.AND_NOT:
		return ts.Bin(OpBAnd, a, ts.BNot(b))
	case token.SHL, token.SHR:
		ybt := under(yt).(*types.Basic)
		if isSigned(ybt) {
			if in.branch(ts.Cmp(OpSLt, b, ts.Const(b.w, 0))) {
				in.rtPanic("negative shift amount")
			}
		}
		// bring the count to a's width, saturating
		var cnt *Term
		big := ts.False
		if b.w > a.w {
			big = ts.Not(ts.Cmp(OpULt, b, ts.Const(b.w, uint64(a.w))))
			cnt = ts.Extract(b, a.w-1, 0)
		} else {
			cnt = ts.ZExt(b, a.w)
		}
		var sh *Term
		switch {
		case op == token.SHL:
			sh = ts.Bin(OpShl, a, cnt)
		case signed:
			sh = ts.Bin(OpAShr, a, cnt)
		default:
			sh = ts.Bin(OpLShr, a, cnt)
		}
		if big.IsFalse() {
			return sh
		}
		var over *Term
		if op == token.SHR && signed {
			over = ts.Bin(OpAShr, a, ts.Const(a.w, uint64(a.w-1)))
		} else {
			over = ts.Const(a.w, 0)
		}
		return ts.Ite(big, over, sh)
	case token.LSS:
		if signed {
			return ts.Cmp(OpSLt, a, b)
		}
		return ts.Cmp(OpULt, a, b)
	case token.LEQ:
		if signed {
			return ts.Cmp(OpSLe, a, b)
		}
		return ts.Cmp(OpULe, a, b)
	case token.GTR:
		if signed {
			return ts.Cmp(OpSLt, b, a)
		}
		return ts.Cmp(OpULt, b, a)
	case token.GEQ:
		if signed {
			return ts.Cmp(OpSLe, b, a)
		}
		return ts.Cmp(OpULe, b, a)
	}
	in.unsupported("binop " + op.String())
	return nil
}

func (in *Interp) strLess(x, y Str, orEq bool) *Term {
	ts := in.ts
	n := min(len(x.b), len(y.b))
	// result if all first n bytes equal
	var r *Term
	if orEq {
		r = ts.Bool(len(x.b) <= len(y.b))
	} else {
		r = ts.Bool(len(x.b) < len(y.b))
	}
	for i := n - 1; i >= 0; i-- {
		r = ts.Ite(ts.Eq(x.b[i], y.b[i]), r, ts.Cmp(OpULt, x.b[i], y.b[i]))
	}
	return r
}

func (in *Interp) f64(bt *types.Basic, t *Term) (float64, bool) {
	if !t.IsConst() {
		return 0, false
	}
	if basicWidth(bt) == 32 {
		return float64(math.Float32frombits(uint32(t.val))), true
	}
	return math.Float64frombits(t.val), true
}

func (in *Interp) mkFloat(bt *types.Basic, f float64) *Term {
	if basicWidth(bt) == 32 {
		return in.ts.Const(32, uint64(math.Float32bits(float32(f))))
	}
	return in.ts.Const(64, math.Float64bits(f))
}

func (in *Interp) floatUn(bt *types.Basic, a *Term) value {
	// negation flips the sign bit
	w := a.w
	return in.ts.Bin(OpBXor, a, in.ts.Const(w, uint64(1)<<uint(w-1)))
}

func (in *Interp) floatCmp(op string, bt *types.Basic, a, b *Term) *Term {
	x, ok1 := in.f64(bt, a)
	y, ok2 := in.f64(bt, b)
	if !ok1 || !ok2 {
		in.unsupported("symbolic floating-point comparison")
	}
	return in.ts.Bool(x == y)
}

func (in *Interp) floatBin(op token.Token, bt *types.Basic, a, b *Term) value {
	x, ok1 := in.f64(bt, a)
	y, ok2 := in.f64(bt, b)
	if !ok1 || !ok2 {
		in.unsupported("symbolic floating-point arithmetic")
	}
	switch op {
	case token.ADD:
		return in.mkFloat(bt, x+y)
	case token.SUB:
		return in.mkFloat(bt, x-y)
	case token.MUL:
		return in.mkFloat(bt, x*y)
	case token.QUO:
		return in.mkFloat(bt, x/y)
	case token.LSS:
		return in.ts.Bool(x < y)
	case token.LEQ:
		return in.ts.Bool(x <= y)
	case token.GTR:
		return in.ts.Bool(x > y)
	case token.GEQ:
		return in.ts.Bool(x >= y)
	}
	in.unsupported("float op " + op.String())
	return nil
}

// ---------------------------------------------------------------------------
// Conversions

func (in *Interp) conv(dst, src types.Type, x value) value {
	ts := in.ts
	ud, us := under(dst), under(src)
	switch us := us.(type) {
	case *types.Pointer:
		return x // to unsafe.Pointer or another pointer type
	case *types.Slice:
		s := x.(Slice)
		if isStringT(dst) {
			// []byte / []rune -> string
			eb := under(us.Elem()).(*types.Basic)
			if eb.Kind() == types.Uint8 {
				b := make([]*Term, len(s.a))
				for i, v := range s.a {
					in.sch.noteRead(&s.a[i])
					b[i] = v.(*Term)
				}
				return Str{b}
			}
			// []rune
			var out []*Term
			for _, v := range s.a {
				out = append(out, in.encodeRune(v.(*Term))...)
			}
			return Str{out}
		}
		return x
	case *types.Basic:
		if us.Kind() == types.UnsafePointer {
			return x
		}
		if us.Info()&types.IsString != 0 {
			s := x.(Str)
			switch ud := ud.(type) {
			case *types.Slice:
				eb := under(ud.Elem()).(*types.Basic)
				if eb.Kind() == types.Uint8 {
					a := make([]value, len(s.b))
					for i, b := range s.b {
						a[i] = b
					}
					return Slice{a: a}
				}
				// []rune
				rs := in.decodeRunes(s)
				a := make([]value, len(rs))
				for i, r := range rs {
					a[i] = r
				}
				return Slice{a: a}
			case *types.Basic:
				if ud.Info()&types.IsString != 0 {
					return x
				}
			}
			in.unsupported("string conversion to " + dst.String())
		}
		t := x.(*Term)
		db, ok := ud.(*types.Basic)
		if !ok {
			in.unsupported("conversion to " + dst.String())
		}
		if db.Kind() == types.UnsafePointer {
			in.unsupported("uintptr to unsafe.Pointer")
		}
		switch {
		case db.Info()&types.IsString != 0:
			// integer (rune) -> string
			return Str{in.encodeRune(ts.SExt(t, 64))}
		case isInteger(us) && isInteger(db):
			dw := basicWidth(db)
			if dw <= t.w {
				return ts.Extract(t, dw-1, 0)
			}
			if isSigned(us) {
				return ts.SExt(t, dw)
			}
			return ts.ZExt(t, dw)
		case isInteger(us) && isFloat(db):
			if !t.IsConst() {
				// floats are concrete-only: split on the feasible integer values (bounded by the fork cap)
				t = in.concretizeByModel(t, "int to float conversion")
			}
			if isSigned(us) {
				return in.mkFloat(db, float64(t.Int()))
			}
			return in.mkFloat(db, float64(t.Uint()))
		case isFloat(us) && isInteger(db):
			f, ok := in.f64(us, t)
			if !ok {
				in.unsupported("symbolic float to int conversion")
			}
			dw := basicWidth(db)
			if isSigned(db) {
				return ts.Const(dw, uint64(int64(f)))
			}
			return ts.Const(dw, uint64(f))
		case isFloat(us) && isFloat(db):
			if basicWidth(us) == basicWidth(db) {
				return t
			}
			f, ok := in.f64(us, t)
			if !ok {
				in.unsupported("symbolic float width conversion")
			}
			return in.mkFloat(db, f)
		case us.Info()&types.IsBoolean != 0:
			return t
		}
	}
	in.unsupported(fmt.Sprintf("conversion %s -> %s", src, dst))
	return nil
}

// encodeRune: UTF-8 encoding; concrete runes directly, symbolic runes by forking on the length class.
func (in *Interp) encodeRune(r *Term) []*Term {
	ts := in.ts
	r = ts.SExt(r, 64)
	if r.w > 64 {
		r = ts.Extract(r, 63, 0)
	}
	c := func(v uint64) *Term { return ts.Const(64, v) }
	invalid := ts.Or(ts.Cmp(OpSLt, r, c(0)), ts.Or(ts.Cmp(OpSLt, c(0x10FFFF), r),
		ts.And(ts.Cmp(OpSLe, c(0xD800), r), ts.Cmp(OpSLe, r, c(0xDFFF)))))
	if in.branch(invalid) {
		return []*Term{ts.Const(8, 0xEF), ts.Const(8, 0xBF), ts.Const(8, 0xBD)}
	}
	b := func(t *Term) *Term { return ts.Extract(t, 7, 0) }
	or := func(t *Term, v uint64) *Term { return ts.Bin(OpBOr, t, c(v)) }
	and := func(t *Term, v uint64) *Term { return ts.Bin(OpBAnd, t, c(v)) }
	shr := func(t *Term, n uint64) *Term { return ts.Bin(OpLShr, t, c(n)) }
	if in.branch(ts.Cmp(OpULt, r, c(0x80))) {
		return []*Term{b(r)}
	}
	if in.branch(ts.Cmp(OpULt, r, c(0x800))) {
		return []*Term{b(or(shr(r, 6), 0xC0)), b(or(and(r, 0x3F), 0x80))}
	}
	if in.branch(ts.Cmp(OpULt, r, c(0x10000))) {
		return []*Term{b(or(shr(r, 12), 0xE0)), b(or(and(shr(r, 6), 0x3F), 0x80)), b(or(and(r, 0x3F), 0x80))}
	}
	return []*Term{b(or(shr(r, 18), 0xF0)), b(or(and(shr(r, 12), 0x3F), 0x80)), b(or(and(shr(r, 6), 0x3F), 0x80)), b(or(and(r, 0x3F), 0x80))}
}

// decodeRune decodes the first rune of s by running the program's own
// unicode/utf8.DecodeRuneInString (real code, forks on symbolic bytes).
func (in *Interp) decodeRune(s Str) (*Term, int) {
	fn := in.ex.lookupFunc("unicode/utf8", "DecodeRuneInString")
	if fn == nil {
		// concrete fallback
		cs, ok := s.Concrete()
		if !ok {
			in.unsupported("range over symbolic string without unicode/utf8 loaded")
		}
		for _, r := range cs {
			return in.ts.Const(32, uint64(r)), len(string(r))
		}
	}
	res := in.callFn(nil, fn, []value{s}, nil).(Tuple)
	sz := res[1].(*Term)
	n := in.concretize(sz, 0, 4, "rune size")
	return res[0].(*Term), int(n)
}

func (in *Interp) decodeRunes(s Str) []*Term {
	var out []*Term
	for len(s.b) > 0 {
		r, n := in.decodeRune(s)
		out = append(out, r)
		s = Str{s.b[n:]}
	}
	return out
}

// ---------------------------------------------------------------------------
// Type assertions

func (in *Interp) typeAssert(ins *ssa.TypeAssert, x Iface) value {
	var ok bool
	var v value
	if it, isI := under(ins.AssertedType).(*types.Interface); isI {
		if x.t != nil {
			if isOpaqueT(x.t) {
				ok = it.NumMethods() == 0 || (it.NumMethods() == 1 && it.Method(0).Name() == "Error")
			} else {
				ok = types.Implements(x.t, it) || it.NumMethods() == 0
			}
		}
		v = x
	} else {
		ok = x.t != nil && types.Identical(x.t, ins.AssertedType)
		if ok {
			v = x.v
		}
	}
	if ins.CommaOk {
		if !ok {
			v = in.zero(ins.AssertedType)
		}
		return Tuple{v, in.ts.Bool(ok)}
	}
	if !ok {
		ts := "nil"
		if x.t != nil {
			ts = x.t.String()
		}
		in.goPanic(in.runtimeError(fmt.Sprintf("interface conversion: interface is %s, not %s", ts, ins.AssertedType)))
	}
	return v
}

// ---------------------------------------------------------------------------
// Maps

func (in *Interp) mapFind(m *Map, key value) int {
	for i, k := range m.keys {
		if in.branch(in.equals(m.kt, k, key)) {
			return i
		}
	}
	return -1
}

func (in *Interp) lookup(fr *frame, ins *ssa.Lookup) value {
	x := in.get(fr, ins.X)
	key := in.get(fr, ins.Index)
	if s, ok := x.(Str); ok {
		idx := key.(*Term)
		i64 := in.checkIndex(idx, len(s.b), idxSigned(ins.Index.Type()))
		return in.strIndex(s, i64)
	}
	m := x.(*Map)
	vt := under(ins.X.Type()).(*types.Map).Elem()
	var v value
	found := false
	if m != nil {
		in.sch.noteReadObj(m)
		if i := in.mapFind(m, key); i >= 0 {
			v = copyVal(m.vals[i])
			found = true
		}
	}
	if !found {
		v = in.zero(vt)
	}
	if ins.CommaOk {
		return Tuple{v, in.ts.Bool(found)}
	}
	return v
}

func (in *Interp) mapUpdate(fr *frame, m *Map, key, val value) {
	in.sch.noteWriteObj(m)
	if i := in.mapFind(m, key); i >= 0 {
		m.vals[i] = copyVal(val)
		return
	}
	m.keys = append(m.keys, copyVal(key))
	m.vals = append(m.vals, copyVal(val))
}

func (in *Interp) mapDelete(m *Map, key value) {
	if m == nil {
		return
	}
	in.sch.noteWriteObj(m)
	if i := in.mapFind(m, key); i >= 0 {
		m.keys = append(append([]value(nil), m.keys[:i]...), m.keys[i+1:]...)
		m.vals = append(append([]value(nil), m.vals[:i]...), m.vals[i+1:]...)
	}
}

func (in *Interp) rangeIter(fr *frame, x value, t types.Type) value {
	switch x := x.(type) {
	case *Map:
		it := &Iter{m: x}
		if x != nil {
			in.sch.noteReadObj(x)
			it.keys = append([]value(nil), x.keys...)
			it.vals = append([]value(nil), x.vals...)
		}
		return it
	case Str:
		return &Iter{s: x, str: true}
	}
	in.unsupported(fmt.Sprintf("range over %T", x))
	return nil
}

func (in *Interp) next(fr *frame, it *Iter, ins *ssa.Next) value {
	ts := in.ts
	if it.str {
		if it.pos >= len(it.s.b) {
			return Tuple{ts.False, ts.Const(64, 0), ts.Const(32, 0)}
		}
		r, n := in.decodeRune(Str{it.s.b[it.pos:]})
		p := it.pos
		it.pos += n
		return Tuple{ts.True, ts.Const(64, uint64(p)), r}
	}
	// map: entries deleted during iteration are skipped (Go semantics)
	for len(it.keys) > 0 {
		k := 0
		if in.mapOrderAll && len(it.keys) > 1 {
			k = in.chooseN(len(it.keys), 'c')
		}
		key, val := it.keys[k], it.vals[k]
		it.keys = append(append([]value(nil), it.keys[:k]...), it.keys[k+1:]...)
		it.vals = append(append([]value(nil), it.vals[:k]...), it.vals[k+1:]...)
		// still present?
		present := false
		for i, mk := range it.m.keys {
			if e := in.equals(it.m.kt, mk, key); e.IsTrue() {
				present = true
				val = it.m.vals[i]
				break
			}
		}
		if present {
			return Tuple{ts.True, copyVal(key), copyVal(val)}
		}
	}
	mt := under(it.mType(ins)).(*types.Map)
	return Tuple{ts.False, in.zero(mt.Key()), in.zero(mt.Elem())}
}

func (it *Iter) mType(ins *ssa.Next) types.Type {
	return ins.Iter.(*ssa.Range).X.Type()
}

// ---------------------------------------------------------------------------
// Builtins

func (in *Interp) callBuiltin(fr *frame, b *ssa.Builtin, args []value, pos token.Pos) value {
	ts := in.ts
	switch b.Name() {
	case "append":
		s := args[0].(Slice)
		if len(args) == 1 {
			return s
		}
		var add []value
		switch y := args[1].(type) {
		case Slice:
			for i := range y.a {
				in.sch.noteRead(&y.a[i])
			}
			add = y.a
		case Str:
			add = make([]value, len(y.b))
			for i, t := range y.b {
				add[i] = t
			}
		}
		if len(add) == 0 {
			return s
		}
		n := len(s.a) + len(add)
		if n <= cap(s.a) {
			r := s.a[:n]
			for i, v := range add {
				in.sch.noteWrite(&r[len(s.a)+i])
				r[len(s.a)+i] = copyVal(v)
			}
			return Slice{a: r}
		}
		nc := growCap(cap(s.a), n)
		r := make([]value, n, nc)
		copy(r, s.a)
		for i, v := range add {
			r[len(s.a)+i] = copyVal(v)
		}
		// zero the spare capacity with typed zeros
		var et types.Type
		if sl, ok := under(b.Type().(*types.Signature).Params().At(0).Type()).(*types.Slice); ok {
			et = sl.Elem()
		}
		if et != nil {
			full := r[:nc]
			z := in.zero(et)
			for i := n; i < nc; i++ {
				full[i] = copyVal(z)
			}
		}
		return Slice{a: r}
	case "copy":
		dst := args[0].(Slice)
		var src []value
		switch y := args[1].(type) {
		case Slice:
			src = y.a
		case Str:
			src = make([]value, len(y.b))
			for i, t := range y.b {
				src[i] = t
			}
		}
		n := min(len(dst.a), len(src))
		tmp := make([]value, n)
		for i := 0; i < n; i++ {
			in.sch.noteRead(&src[i])
			tmp[i] = copyVal(src[i])
		}
		for i := 0; i < n; i++ {
			in.sch.noteWrite(&dst.a[i])
			dst.a[i] = tmp[i]
		}
		return ts.Const(64, uint64(n))
	case "len":
		switch x := args[0].(type) {
		case Str:
			return ts.Const(64, uint64(len(x.b)))
		case Slice:
			return ts.Const(64, uint64(len(x.a)))
		case Array:
			return ts.Const(64, uint64(len(x)))
		case Ptr:
			return ts.Const(64, uint64(len((*x.p).(Array))))
		case *Map:
			if x == nil {
				return ts.Const(64, 0)
			}
			in.sch.noteReadObj(x)
			return ts.Const(64, uint64(len(x.keys)))
		case *Chan:
			return ts.Const(64, uint64(in.chanLen(x)))
		}
	case "cap":
		switch x := args[0].(type) {
		case Slice:
			return ts.Const(64, uint64(cap(x.a)))
		case Array:
			return ts.Const(64, uint64(len(x)))
		case Ptr:
			return ts.Const(64, uint64(len((*x.p).(Array))))
		case *Chan:
			if x == nil {
				return ts.Const(64, 0)
			}
			return ts.Const(64, uint64(x.cap))
		}
	case "delete":
		in.mapDelete(args[0].(*Map), args[1])
		return nil
	case "close":
		in.chanClose(fr, args[0].(*Chan))
		return nil
	case "panic":
		in.goPanic(args[0])
	case "recover":
		return in.doRecover(fr)
	case "print", "println":
		return nil
	case "min", "max":
		r := args[0]
		bt, _ := under(b.Type().(*types.Signature).Params().At(0).Type()).(*types.Basic)
		for _, a := range args[1:] {
			var lt *Term
			if rs, ok := r.(Str); ok {
				lt = in.strLess(a.(Str), rs, false)
			} else {
				lt = in.binop(token.LSS, bt, bt, a, r).(*Term)
			}
			if b.Name() == "max" {
				lt = in.binop(token.GTR, bt, bt, a, r).(*Term)
			}
			nv, ok := in.iteVal(lt, a, r)
			if !ok {
				if in.branch(lt) {
					nv = a
				} else {
					nv = r
				}
			}
			r = nv
		}
		return r
	case "clear":
		switch x := args[0].(type) {
		case *Map:
			if x != nil {
				in.sch.noteWriteObj(x)
				x.keys, x.vals = nil, nil
			}
		case Slice:
			et := under(b.Type().(*types.Signature).Params().At(0).Type()).(*types.Slice).Elem()
			for i := range x.a {
				x.a[i] = in.zero(et)
			}
		}
		return nil
	case "SliceData":
		sl := args[0].(Slice)
		if sl.isNil || cap(sl.a) == 0 {
			return Ptr{}
		}
		return Ptr{arr: sl.a[:cap(sl.a)], idx: ts.Const(64, 0)}
	case "String":
		p := args[0].(Ptr)
		n := int(in.concretize(in.toInt64(args[1].(*Term), types.Typ[types.Int]), 0, int64(in.ex.cfg.MaxAlloc), "unsafe.String length"))
		if n == 0 {
			return Str{}
		}
		if p.arr == nil || !p.idx.IsConst() {
			in.unsupported("unsafe.String on a pointer without array context")
		}
		o := int(p.idx.val)
		bs := make([]*Term, n)
		for i := 0; i < n; i++ {
			bs[i] = p.arr[o+i].(*Term)
		}
		return Str{bs}
	case "ssa:wrapnilchk":
		p := args[0].(Ptr)
		if p.IsNil() {
			in.rtPanic("value method called using nil pointer")
		}
		return p
	}
	in.unsupported("builtin " + b.Name())
	return nil
}

func growCap(old, need int) int {
	nc := old
	dbl := nc + nc
	if need > dbl {
		return need
	}
	const threshold = 256
	if old < threshold {
		if dbl == 0 {
			return need
		}
		return dbl
	}
	for nc < need {
		nc += (nc + 3*threshold) >> 2
	}
	return nc
}

func (in *Interp) doRecover(fr *frame) value {
	// fr is the deferred function's frame; its caller is the panicking frame
	if fr == nil || fr.caller == nil || !fr.caller.panicking {
		return Iface{}
	}
	c := fr.caller
	gp, ok := c.panicVal.(*goPanic)
	if !ok {
		return Iface{}
	}
	c.panicking = false
	c.panicVal = nil
	if v, ok := gp.val.(Iface); ok {
		return v
	}
	return Iface{}
}

// ---------------------------------------------------------------------------

func (in *Interp) posStr(p token.Pos) string {
	if p == token.NoPos {
		return ""
	}
	ps := in.prog.Fset.Position(p)
	f := ps.Filename
	if i := strings.LastIndex(f, "/"); i >= 0 {
		f = f[i+1:]
	}
	return fmt.Sprintf("%s:%d", f, ps.Line)
}

func debugf(format string, a ...any) {
	if os.Getenv("SYMGO_DEBUG") != "" {
		fmt.Fprintf(os.Stderr, format+"\n", a...)
	}
}
