package main

// Hash-consed term DAG over Bool and bit-vectors of width 1..64, with
// constant folding, light algebraic simplification, unsigned range
// estimation, an evaluator (used for model-guided branching and for the
// concrete mode of translator validation) and SMT-LIB2 printing.

import (
	"fmt"
	"math/bits"
	"strconv"
	"strings"
)

type Op uint8

const (
	OpConst Op = iota
	OpVar
	OpNot
	OpAnd
	OpOr
	OpIte
	OpEq
	OpAdd
	OpSub
	OpMul
	OpUDiv
	OpURem
	OpSDiv
	OpSRem
	OpBAnd
	OpBOr
	OpBXor
	OpBNot
	OpNeg
	OpShl
	OpLShr
	OpAShr
	OpULt
	OpULe
	OpSLt
	OpSLe
	OpExtract
	OpZExt
	OpSExt
)

var opNames = [...]string{"const", "var", "not", "and", "or", "ite", "=", "bvadd", "bvsub", "bvmul", "bvudiv", "bvurem", "bvsdiv", "bvsrem",
	"bvand", "bvor", "bvxor", "bvnot", "bvneg", "bvshl", "bvlshr", "bvashr", "bvult", "bvule", "bvslt", "bvsle", "extract", "zero_extend", "sign_extend"}

// Term: w==0 means Bool, otherwise a bit-vector of width w (<=64).
type Term struct {
	id   int
	op   Op
	w    int
	a    [3]*Term
	val  uint64 // const value (bool: 0/1); extract: hi<<8|lo
	name string
	// cached unsigned bounds
	bk     bool
	lo, hi uint64
}

type termKey struct {
	op         Op
	w          int
	a0, a1, a2 int
	val        uint64
	name       string
}

type TermStore struct {
	tab   map[termKey]*Term
	n     int
	True  *Term
	False *Term
	vars  []*Term
}

func NewTermStore() *TermStore {
	ts := &TermStore{tab: map[termKey]*Term{}}
	ts.True = ts.mk(OpConst, 0, 1, "")
	ts.False = ts.mk(OpConst, 0, 0, "")
	return ts
}

func tid(t *Term) int {
	if t == nil {
		return -1
	}
	return t.id
}

func (ts *TermStore) mk(op Op, w int, val uint64, name string, args ...*Term) *Term {
	k := termKey{op: op, w: w, a0: -1, a1: -1, a2: -1, val: val, name: name}
	if len(args) > 0 {
		k.a0 = args[0].id
	}
	if len(args) > 1 {
		k.a1 = args[1].id
	}
	if len(args) > 2 {
		k.a2 = args[2].id
	}
	if t, ok := ts.tab[k]; ok {
		return t
	}
	t := &Term{id: ts.n, op: op, w: w, val: val, name: name}
	copy(t.a[:], args)
	ts.n++
	ts.tab[k] = t
	if op == OpVar {
		ts.vars = append(ts.vars, t)
	}
	return t
}

func mask(w int) uint64 {
	if w >= 64 {
		return ^uint64(0)
	}
	return (uint64(1) << uint(w)) - 1
}

func sext64(v uint64, w int) int64 {
	if w >= 64 {
		return int64(v)
	}
	sh := uint(64 - w)
	return int64(v<<sh) >> sh
}

func (t *Term) IsConst() bool { return t.op == OpConst }
func (t *Term) IsTrue() bool  { return t.op == OpConst && t.w == 0 && t.val == 1 }
func (t *Term) IsFalse() bool { return t.op == OpConst && t.w == 0 && t.val == 0 }

// Signed constant value.
func (t *Term) Int() int64   { return sext64(t.val, t.w) }
func (t *Term) Uint() uint64 { return t.val }

func (ts *TermStore) Const(w int, v uint64) *Term {
	if w == 0 {
		if v != 0 {
			return ts.True
		}
		return ts.False
	}
	return ts.mk(OpConst, w, v&mask(w), "")
}
func (ts *TermStore) Bool(b bool) *Term {
	if b {
		return ts.True
	}
	return ts.False
}
func (ts *TermStore) Var(name string, w int) *Term { return ts.mk(OpVar, w, 0, name) }

func (ts *TermStore) Not(a *Term) *Term {
	if a.op == OpConst {
		return ts.Bool(a.val == 0)
	}
	if a.op == OpNot {
		return a.a[0]
	}
	return ts.mk(OpNot, 0, 0, "", a)
}

func (ts *TermStore) And(a, b *Term) *Term {
	if a.IsFalse() || b.IsFalse() {
		return ts.False
	}
	if a.IsTrue() {
		return b
	}
	if b.IsTrue() {
		return a
	}
	if a == b {
		return a
	}
	if (a.op == OpNot && a.a[0] == b) || (b.op == OpNot && b.a[0] == a) {
		return ts.False
	}
	if a.id > b.id {
		a, b = b, a
	}
	return ts.mk(OpAnd, 0, 0, "", a, b)
}

func (ts *TermStore) Or(a, b *Term) *Term {
	if a.IsTrue() || b.IsTrue() {
		return ts.True
	}
	if a.IsFalse() {
		return b
	}
	if b.IsFalse() {
		return a
	}
	if a == b {
		return a
	}
	if (a.op == OpNot && a.a[0] == b) || (b.op == OpNot && b.a[0] == a) {
		return ts.True
	}
	if a.id > b.id {
		a, b = b, a
	}
	return ts.mk(OpOr, 0, 0, "", a, b)
}

func (ts *TermStore) Ite(c, a, b *Term) *Term {
	if c.IsTrue() {
		return a
	}
	if c.IsFalse() {
		return b
	}
	if a == b {
		return a
	}
	if a.w != b.w {
		panic(fmt.Sprintf("ite width mismatch %d %d", a.w, b.w))
	}
	if a.w == 0 {
		if a.IsTrue() && b.IsFalse() {
			return c
		}
		if a.IsFalse() && b.IsTrue() {
			return ts.Not(c)
		}
		if a.IsTrue() {
			return ts.Or(c, b)
		}
		if a.IsFalse() {
			return ts.And(ts.Not(c), b)
		}
		if b.IsTrue() {
			return ts.Or(ts.Not(c), a)
		}
		if b.IsFalse() {
			return ts.And(c, a)
		}
	}
	if c.op == OpNot {
		return ts.Ite(c.a[0], b, a)
	}
	// ite(c, x, ite(c, y, z)) = ite(c, x, z)
	if b.op == OpIte && b.a[0] == c {
		return ts.Ite(c, a, b.a[2])
	}
	if a.op == OpIte && a.a[0] == c {
		return ts.Ite(c, a.a[1], b)
	}
	return ts.mk(OpIte, a.w, 0, "", c, a, b)
}

func (ts *TermStore) Eq(a, b *Term) *Term {
	if a == b {
		return ts.True
	}
	if a.w != b.w {
		panic(fmt.Sprintf("eq width mismatch %d %d (%s, %s)", a.w, b.w, a, b))
	}
	if a.op == OpConst && b.op == OpConst {
		return ts.Bool(a.val == b.val)
	}
	if a.w == 0 {
		if a.op == OpConst {
			a, b = b, a
		}
		if b.IsTrue() {
			return a
		}
		if b.IsFalse() {
			return ts.Not(a)
		}
	}
	if a.op == OpConst {
		a, b = b, a
	}
	if b.op == OpConst {
		// eq(ite(c,k1,k2), k) with constant leaves
		if a.op == OpIte {
			x, y := a.a[1], a.a[2]
			if x.op == OpConst || y.op == OpConst {
				return ts.Ite(a.a[0], ts.Eq(x, b), ts.Eq(y, b))
			}
		}
		lo, hi := ts.ubounds(a)
		if b.val < lo || b.val > hi {
			return ts.False
		}
		if a.op == OpZExt {
			x := a.a[0]
			if b.val > mask(x.w) {
				return ts.False
			}
			return ts.Eq(x, ts.Const(x.w, b.val))
		}
	}
	if a.op == OpZExt && b.op == OpZExt && a.a[0].w == b.a[0].w {
		return ts.Eq(a.a[0], b.a[0])
	}
	if a.id > b.id {
		a, b = b, a
	}
	return ts.mk(OpEq, 0, 0, "", a, b)
}

func (ts *TermStore) Ne(a, b *Term) *Term { return ts.Not(ts.Eq(a, b)) }

func foldBin(op Op, w int, x, y uint64) (uint64, bool) {
	m := mask(w)
	switch op {
	case OpAdd:
		return (x + y) & m, true
	case OpSub:
		return (x - y) & m, true
	case OpMul:
		return (x * y) & m, true
	case OpUDiv:
		if y == 0 {
			return m, true
		}
		return x / y, true
	case OpURem:
		if y == 0 {
			return x, true
		}
		return x % y, true
	case OpSDiv:
		sx, sy := sext64(x, w), sext64(y, w)
		if sy == 0 {
			if sx >= 0 {
				return m, true
			}
			return 1, true
		}
		if sy == -1 {
			return uint64(-sx) & m, true
		}
		return uint64(sx/sy) & m, true
	case OpSRem:
		sx, sy := sext64(x, w), sext64(y, w)
		if sy == 0 {
			return x, true
		}
		if sy == -1 {
			return 0, true
		}
		return uint64(sx%sy) & m, true
	case OpBAnd:
		return x & y, true
	case OpBOr:
		return x | y, true
	case OpBXor:
		return x ^ y, true
	case OpShl:
		if y >= uint64(w) {
			return 0, true
		}
		return (x << y) & m, true
	case OpLShr:
		if y >= uint64(w) {
			return 0, true
		}
		return x >> y, true
	case OpAShr:
		sx := sext64(x, w)
		if y >= uint64(w) {
			y = uint64(w - 1)
		}
		return uint64(sx>>y) & m, true
	}
	return 0, false
}

func foldCmp(op Op, w int, x, y uint64) bool {
	switch op {
	case OpULt:
		return x < y
	case OpULe:
		return x <= y
	case OpSLt:
		return sext64(x, w) < sext64(y, w)
	case OpSLe:
		return sext64(x, w) <= sext64(y, w)
	}
	panic("foldCmp")
}

func (ts *TermStore) Bin(op Op, a, b *Term) *Term {
	if a.w != b.w || a.w == 0 {
		panic(fmt.Sprintf("bin %s width mismatch %d %d", opNames[op], a.w, b.w))
	}
	w := a.w
	if a.op == OpConst && b.op == OpConst {
		v, _ := foldBin(op, w, a.val, b.val)
		return ts.Const(w, v)
	}
	m := mask(w)
	switch op {
	case OpAdd:
		if a.op == OpConst {
			a, b = b, a
		}
		if b.op == OpConst {
			if b.val == 0 {
				return a
			}
			// (x + c1) + c2
			if a.op == OpAdd && a.a[1].op == OpConst {
				return ts.Bin(OpAdd, a.a[0], ts.Const(w, a.a[1].val+b.val))
			}
		}
	case OpSub:
		if b.op == OpConst {
			if b.val == 0 {
				return a
			}
			return ts.Bin(OpAdd, a, ts.Const(w, -b.val))
		}
		if a == b {
			return ts.Const(w, 0)
		}
	case OpMul:
		if a.op == OpConst {
			a, b = b, a
		}
		if b.op == OpConst {
			if b.val == 0 {
				return b
			}
			if b.val == 1 {
				return a
			}
			if constLeaves(a, 24) {
				return ts.mapLeaves(a, func(k uint64) uint64 { return (k * b.val) & m })
			}
			if b.val&(b.val-1) == 0 {
				return ts.Bin(OpShl, a, ts.Const(w, uint64(bits.TrailingZeros64(b.val))))
			}
		}
	case OpUDiv:
		if b.op == OpConst && b.val == 1 {
			return a
		}
		if b.op == OpConst && b.val != 0 && b.val&(b.val-1) == 0 {
			return ts.Bin(OpLShr, a, ts.Const(w, uint64(bits.TrailingZeros64(b.val))))
		}
		if b.op == OpConst && b.val != 0 {
			// (x*c)/c = x when x*c cannot wrap
			if a.op == OpMul && a.a[1].op == OpConst && a.a[1].val == b.val {
				_, hx := ts.ubounds(a.a[0])
				if ph, pl := bits.Mul64(hx, b.val); ph == 0 && pl <= m {
					return a.a[0]
				}
			}
			if q := ts.udivByRange(a, b.val); q != nil {
				return q
			}
		}
		if n := ts.narrowDiv(OpUDiv, a, b); n != nil {
			return n
		}
	case OpURem:
		if b.op == OpConst && b.val == 1 {
			return ts.Const(w, 0)
		}
		if b.op == OpConst && b.val != 0 && b.val&(b.val-1) == 0 {
			return ts.Bin(OpBAnd, a, ts.Const(w, b.val-1))
		}
		if b.op == OpConst && b.val != 0 {
			if _, hi := ts.ubounds(a); hi < b.val {
				return a
			}
			// a - (a/c)*c when the quotient has few possible values
			if q := ts.udivByRange(a, b.val); q != nil {
				return ts.Bin(OpSub, a, ts.Bin(OpMul, q, b))
			}
		}
		if n := ts.narrowDiv(OpURem, a, b); n != nil {
			return n
		}
	case OpSDiv:
		if b.op == OpConst && b.val == 1 {
			return a
		}
		// both operands non-negative: the unsigned quotient
		if b.op == OpConst && b.val != 0 && b.val < uint64(1)<<uint(w-1) {
			lo, hi := ts.ubounds(a)
			if hi < uint64(1)<<uint(w-1) {
				return ts.Bin(OpUDiv, a, b)
			}
			// dividend negative throughout: truncated division is -((-a)/c)
			if lo >= uint64(1)<<uint(w-1) {
				return ts.Neg(ts.Bin(OpUDiv, ts.Neg(a), b))
			}
		}
	case OpSRem:
		if b.op == OpConst && b.val != 0 && b.val < uint64(1)<<uint(w-1) {
			lo, hi := ts.ubounds(a)
			if hi < uint64(1)<<uint(w-1) {
				return ts.Bin(OpURem, a, b)
			}
			if lo >= uint64(1)<<uint(w-1) {
				return ts.Neg(ts.Bin(OpURem, ts.Neg(a), b))
			}
		}
	case OpBAnd:
		if a.op == OpConst {
			a, b = b, a
		}
		if b.op == OpConst {
			if b.val == 0 {
				return b
			}
			if b.val == m {
				return a
			}
			if _, hi := ts.ubounds(a); hi <= b.val && b.val&(b.val+1) == 0 {
				return a
			}
			if a.op == OpBAnd && a.a[1].op == OpConst {
				return ts.Bin(OpBAnd, a.a[0], ts.Const(w, a.a[1].val&b.val))
			}
			// masks distribute over or / ite / constant shifts when a piece folds away
			if a.op == OpBOr {
				x, y := ts.Bin(OpBAnd, a.a[0], b), ts.Bin(OpBAnd, a.a[1], b)
				if x.op == OpConst || y.op == OpConst || x == a.a[0] || y == a.a[1] {
					return ts.Bin(OpBOr, x, y)
				}
			}
			if a.op == OpIte && (a.a[1].op == OpConst || a.a[2].op == OpConst) {
				return ts.Ite(a.a[0], ts.Bin(OpBAnd, a.a[1], b), ts.Bin(OpBAnd, a.a[2], b))
			}
			if a.op == OpShl && a.a[1].op == OpConst && a.a[1].val < 64 {
				// (x << k) & c : bits of c below k are irrelevant; if x is narrow the result may vanish
				_, hx := ts.ubounds(a.a[0])
				k := a.a[1].val
				if bits.Len64(hx)+int(k) <= 64 && (hx<<k)&b.val == 0 {
					return ts.Const(w, 0)
				}
			}
		}
		if a == b {
			return a
		}
	case OpBOr:
		if a.op == OpConst {
			a, b = b, a
		}
		if b.op == OpConst {
			if b.val == 0 {
				return a
			}
			if b.val == m {
				return b
			}
		}
		if a == b {
			return a
		}
	case OpBXor:
		if a.op == OpConst {
			a, b = b, a
		}
		if b.op == OpConst && b.val == 0 {
			return a
		}
		if a == b {
			return ts.Const(w, 0)
		}
	case OpShl, OpLShr, OpAShr:
		if b.op == OpConst {
			if b.val == 0 {
				return a
			}
			if b.val >= uint64(w) && op != OpAShr {
				return ts.Const(w, 0)
			}
			if op == OpLShr {
				if _, hi := ts.ubounds(a); b.val < 64 && hi>>b.val == 0 {
					return ts.Const(w, 0)
				}
				// lshr(zext(x), c): extract from x
				if a.op == OpZExt && b.val >= uint64(a.a[0].w) {
					return ts.Const(w, 0)
				}
			}
		}
		if a.op == OpConst && a.val == 0 {
			return a
		}
	}
	switch op {
	case OpAdd, OpMul, OpBAnd, OpBOr, OpBXor:
		if a.op != OpConst && b.op != OpConst && a.id > b.id {
			a, b = b, a
		}
	}
	return ts.mk(op, w, 0, "", a, b)
}

func (ts *TermStore) Cmp(op Op, a, b *Term) *Term {
	if a.w != b.w || a.w == 0 {
		panic(fmt.Sprintf("cmp width mismatch %d %d", a.w, b.w))
	}
	if a.op == OpConst && b.op == OpConst {
		return ts.Bool(foldCmp(op, a.w, a.val, b.val))
	}
	if a == b {
		return ts.Bool(op == OpULe || op == OpSLe)
	}
	// x % n < n  <=>  n != 0   (bvurem x 0 = x)
	if op == OpULt && a.op == OpURem && a.a[1] == b {
		return ts.Ne(b, ts.Const(b.w, 0))
	}
	if op == OpULe && b.op == OpURem && b.a[1] == a {
		return ts.Eq(a, ts.Const(a.w, 0))
	}
	alo, ahi := ts.ubounds(a)
	blo, bhi := ts.ubounds(b)
	switch op {
	case OpULt:
		if ahi < blo {
			return ts.True
		}
		if alo >= bhi {
			return ts.False
		}
	case OpULe:
		if ahi <= blo {
			return ts.True
		}
		if alo > bhi {
			return ts.False
		}
	case OpSLt, OpSLe:
		// if both are provably non-negative the signed and unsigned orders agree
		sm := uint64(1) << uint(a.w-1)
		if ahi < sm && bhi < sm {
			if op == OpSLt {
				return ts.Cmp(OpULt, a, b)
			}
			return ts.Cmp(OpULe, a, b)
		}
	}
	return ts.mk(op, 0, 0, "", a, b)
}

func (ts *TermStore) BNot(a *Term) *Term {
	if a.op == OpConst {
		return ts.Const(a.w, ^a.val)
	}
	if a.op == OpBNot {
		return a.a[0]
	}
	return ts.mk(OpBNot, a.w, 0, "", a)
}

func (ts *TermStore) Neg(a *Term) *Term {
	if a.op == OpConst {
		return ts.Const(a.w, -a.val)
	}
	return ts.mk(OpNeg, a.w, 0, "", a)
}

func (ts *TermStore) Extract(a *Term, hi, lo int) *Term {
	if lo == 0 && hi == a.w-1 {
		return a
	}
	w := hi - lo + 1
	if a.op == OpConst {
		return ts.Const(w, a.val>>uint(lo))
	}
	switch a.op {
	case OpZExt, OpSExt:
		x := a.a[0]
		if hi < x.w {
			return ts.Extract(x, hi, lo)
		}
		if a.op == OpZExt && lo >= x.w {
			return ts.Const(w, 0)
		}
		if a.op == OpZExt && lo == 0 {
			return ts.ZExt(x, w)
		}
		if a.op == OpSExt && lo == 0 {
			return ts.SExt(x, w)
		}
	case OpExtract:
		l0 := int(a.val & 0xff)
		return ts.Extract(a.a[0], hi+l0, lo+l0)
	case OpIte:
		if a.a[1].op == OpConst || a.a[2].op == OpConst {
			return ts.Ite(a.a[0], ts.Extract(a.a[1], hi, lo), ts.Extract(a.a[2], hi, lo))
		}
	case OpBAnd, OpBOr, OpBXor:
		if lo == 0 {
			return ts.Bin(a.op, ts.Extract(a.a[0], hi, lo), ts.Extract(a.a[1], hi, lo))
		}
	case OpAdd, OpSub, OpMul:
		if lo == 0 {
			return ts.Bin(a.op, ts.Extract(a.a[0], hi, lo), ts.Extract(a.a[1], hi, lo))
		}
	case OpLShr:
		// extract(lshr(x,c)) = extract(x) shifted, when in range
		if a.a[1].op == OpConst {
			c := int(a.a[1].val)
			if hi+c < a.w {
				return ts.Extract(a.a[0], hi+c, lo+c)
			}
		}
	}
	return ts.mk(OpExtract, w, uint64(hi)<<8|uint64(lo), "", a)
}

func (ts *TermStore) ZExt(a *Term, w int) *Term {
	if w == a.w {
		return a
	}
	if w < a.w {
		return ts.Extract(a, w-1, 0)
	}
	if a.op == OpConst {
		return ts.Const(w, a.val)
	}
	if a.op == OpZExt {
		return ts.ZExt(a.a[0], w)
	}
	if a.op == OpIte && (a.a[1].op == OpConst || a.a[2].op == OpConst) {
		return ts.Ite(a.a[0], ts.ZExt(a.a[1], w), ts.ZExt(a.a[2], w))
	}
	return ts.mk(OpZExt, w, 0, "", a)
}

func (ts *TermStore) SExt(a *Term, w int) *Term {
	if w == a.w {
		return a
	}
	if w < a.w {
		return ts.Extract(a, w-1, 0)
	}
	if a.op == OpConst {
		return ts.Const(w, uint64(sext64(a.val, a.w)))
	}
	if a.op == OpZExt {
		return ts.ZExt(a.a[0], w)
	}
	if _, hi := ts.ubounds(a); hi < uint64(1)<<uint(a.w-1) {
		return ts.ZExt(a, w)
	}
	if a.op == OpSExt {
		return ts.SExt(a.a[0], w)
	}
	if a.op == OpIte && (a.a[1].op == OpConst || a.a[2].op == OpConst) {
		return ts.Ite(a.a[0], ts.SExt(a.a[1], w), ts.SExt(a.a[2], w))
	}
	return ts.mk(OpSExt, w, 0, "", a)
}

// udivByRange: a / c as a chain of comparisons when the unsigned range of a spans at most 16
// quotient values (nil otherwise).
func (ts *TermStore) udivByRange(a *Term, c uint64) *Term {
	lo, hi := ts.ubounds(a)
	ql, qh := lo/c, hi/c
	if qh-ql > 16 {
		return nil
	}
	r := ts.Const(a.w, ql)
	for q := ql + 1; q <= qh; q++ {
		// q*c <= hi, so it does not overflow
		r = ts.Ite(ts.Cmp(OpULe, ts.Const(a.w, q*c), a), ts.Const(a.w, q), r)
	}
	return r
}

// narrowDiv: an unsigned division/remainder whose operands both fit k <= w/2 bits is done at k bits
// (the divider the solver has to bit-blast shrinks quadratically).
func (ts *TermStore) narrowDiv(op Op, a, b *Term) *Term {
	_, ha := ts.ubounds(a)
	lb, hb := ts.ubounds(b)
	if lb == 0 { // division by zero has its own SMT-LIB value at each width
		return nil
	}
	k := bits.Len64(ha | hb)
	if k == 0 {
		k = 1
	}
	if k > a.w/2 {
		return nil
	}
	return ts.ZExt(ts.Bin(op, ts.Extract(a, k-1, 0), ts.Extract(b, k-1, 0)), a.w)
}

// constLeaves: t is an ite tree (at most n nodes) whose leaves are all constants.
func constLeaves(t *Term, n int) bool {
	var walk func(t *Term) bool
	walk = func(t *Term) bool {
		if t.op == OpConst {
			return true
		}
		if t.op != OpIte || n <= 0 {
			return false
		}
		n--
		return walk(t.a[1]) && walk(t.a[2])
	}
	return t.op == OpIte && walk(t)
}

func (ts *TermStore) mapLeaves(t *Term, f func(uint64) uint64) *Term {
	if t.op == OpConst {
		return ts.Const(t.w, f(t.val))
	}
	return ts.Ite(t.a[0], ts.mapLeaves(t.a[1], f), ts.mapLeaves(t.a[2], f))
}

// ubounds: a cheap sound over-approximation of the unsigned range of t.
func (ts *TermStore) ubounds(t *Term) (uint64, uint64) {
	if t.bk {
		return t.lo, t.hi
	}
	lo, hi := uint64(0), mask(t.w)
	switch t.op {
	case OpConst:
		lo, hi = t.val, t.val
	case OpZExt:
		lo, hi = ts.ubounds(t.a[0])
	case OpIte:
		l1, h1 := ts.ubounds(t.a[1])
		l2, h2 := ts.ubounds(t.a[2])
		lo, hi = min(l1, l2), max(h1, h2)
	case OpBAnd:
		_, h1 := ts.ubounds(t.a[0])
		_, h2 := ts.ubounds(t.a[1])
		hi = min(h1, h2)
	case OpBOr, OpBXor:
		_, h1 := ts.ubounds(t.a[0])
		_, h2 := ts.ubounds(t.a[1])
		n := bits.Len64(h1 | h2)
		if n < 64 {
			hi = (uint64(1) << uint(n)) - 1
		}
	case OpURem:
		if t.a[1].op == OpConst && t.a[1].val != 0 {
			hi = t.a[1].val - 1
		}
		_, h1 := ts.ubounds(t.a[0])
		hi = min(hi, h1)
	case OpUDiv:
		l1, h1 := ts.ubounds(t.a[0])
		if t.a[1].op == OpConst && t.a[1].val != 0 {
			lo, hi = l1/t.a[1].val, h1/t.a[1].val
		} else if l2, _ := ts.ubounds(t.a[1]); l2 > 0 {
			hi = h1 / l2
		} // a divisor that may be zero: bvudiv x 0 is all ones, no bound
	case OpLShr:
		_, h1 := ts.ubounds(t.a[0])
		if t.a[1].op == OpConst && t.a[1].val < 64 {
			hi = h1 >> t.a[1].val
		} else {
			hi = h1
		}
	case OpAdd:
		l1, h1 := ts.ubounds(t.a[0])
		l2, h2 := ts.ubounds(t.a[1])
		s, c := bits.Add64(h1, h2, 0)
		if c == 0 && s <= mask(t.w) {
			lo, hi = l1+l2, s
		} else if t.a[1].op == OpConst {
			// x + k with k = -n (mod 2^w): x - n when x >= n throughout
			n := (-t.a[1].val) & mask(t.w)
			if l1 >= n {
				lo, hi = l1-n, h1-n
			}
		}
	case OpSub:
		l1, h1 := ts.ubounds(t.a[0])
		l2, h2 := ts.ubounds(t.a[1])
		if l1 >= h2 {
			lo, hi = l1-h2, h1-l2
		}
	case OpNeg:
		l1, h1 := ts.ubounds(t.a[0])
		if l1 >= 1 {
			lo, hi = (-h1)&mask(t.w), (-l1)&mask(t.w)
		}
	case OpMul:
		l1, h1 := ts.ubounds(t.a[0])
		l2, h2 := ts.ubounds(t.a[1])
		ph, pl := bits.Mul64(h1, h2)
		if ph == 0 && pl <= mask(t.w) {
			lo, hi = l1*l2, pl
		}
	case OpShl:
		_, h1 := ts.ubounds(t.a[0])
		if t.a[1].op == OpConst && t.a[1].val < 64 {
			c := t.a[1].val
			if bits.Len64(h1)+int(c) <= t.w {
				hi = h1 << c
			}
		}
	case OpExtract:
		l0 := int(t.val & 0xff)
		if l0 == 0 {
			_, h1 := ts.ubounds(t.a[0])
			hi = min(hi, h1)
		}
	}
	if t.w > 0 && hi > mask(t.w) {
		hi = mask(t.w)
	}
	t.bk, t.lo, t.hi = true, lo, hi
	return lo, hi
}

// ---------------------------------------------------------------------------
// Evaluation under an assignment of variables.

type Model map[string]uint64

type Evaluator struct {
	m     Model
	cache map[int]uint64
}

func NewEvaluator(m Model) *Evaluator { return &Evaluator{m: m, cache: map[int]uint64{}} }

func (e *Evaluator) Eval(t *Term) uint64 {
	if t.op == OpConst {
		return t.val
	}
	if v, ok := e.cache[t.id]; ok {
		return v
	}
	var v uint64
	switch t.op {
	case OpVar:
		v = e.m[t.name] & mask(t.w)
		if t.w == 0 {
			v = e.m[t.name] & 1
		}
	case OpNot:
		v = e.Eval(t.a[0]) ^ 1
	case OpAnd:
		v = e.Eval(t.a[0]) & e.Eval(t.a[1])
	case OpOr:
		v = e.Eval(t.a[0]) | e.Eval(t.a[1])
	case OpIte:
		if e.Eval(t.a[0]) != 0 {
			v = e.Eval(t.a[1])
		} else {
			v = e.Eval(t.a[2])
		}
	case OpEq:
		if e.Eval(t.a[0]) == e.Eval(t.a[1]) {
			v = 1
		}
	case OpULt, OpULe, OpSLt, OpSLe:
		if foldCmp(t.op, t.a[0].w, e.Eval(t.a[0]), e.Eval(t.a[1])) {
			v = 1
		}
	case OpBNot:
		v = ^e.Eval(t.a[0]) & mask(t.w)
	case OpNeg:
		v = -e.Eval(t.a[0]) & mask(t.w)
	case OpExtract:
		lo := uint(t.val & 0xff)
		v = (e.Eval(t.a[0]) >> lo) & mask(t.w)
	case OpZExt:
		v = e.Eval(t.a[0])
	case OpSExt:
		v = uint64(sext64(e.Eval(t.a[0]), t.a[0].w)) & mask(t.w)
	default:
		v, _ = foldBin(t.op, t.w, e.Eval(t.a[0]), e.Eval(t.a[1]))
	}
	e.cache[t.id] = v
	return v
}

// ---------------------------------------------------------------------------
// SMT-LIB2 printing.

func sortOf(w int) string {
	if w == 0 {
		return "Bool"
	}
	return fmt.Sprintf("(_ BitVec %d)", w)
}

func smtConst(w int, v uint64) string {
	if w == 0 {
		if v != 0 {
			return "true"
		}
		return "false"
	}
	if w%4 == 0 {
		return fmt.Sprintf("#x%0*x", w/4, v)
	}
	return fmt.Sprintf("#b%0*b", w, v)
}

func (t *Term) ref() string {
	switch t.op {
	case OpConst:
		return smtConst(t.w, t.val)
	case OpVar:
		return "|" + smtVarName(t) + "|"
	}
	return fmt.Sprintf("t%d", t.id)
}

// smtVarName: the solver-side symbol of an input. The width is part of the symbol: one session
// (global declarations) sees paths on which an input of the same name has different types.
func smtVarName(t *Term) string {
	if t.w == 64 {
		return "in:" + t.name
	}
	return fmt.Sprintf("in:%s@%d", t.name, t.w)
}

// inputOfSMT inverts smtVarName.
func inputOfSMT(sym string) string {
	sym = strings.TrimPrefix(sym, "in:")
	if i := strings.LastIndexByte(sym, '@'); i >= 0 {
		if _, err := strconv.Atoi(sym[i+1:]); err == nil {
			return sym[:i]
		}
	}
	return sym
}

// body of the definition of t in terms of refs of its children
func (t *Term) body() string {
	switch t.op {
	case OpExtract:
		return fmt.Sprintf("((_ extract %d %d) %s)", t.val>>8, t.val&0xff, t.a[0].ref())
	case OpZExt, OpSExt:
		return fmt.Sprintf("((_ %s %d) %s)", opNames[t.op], t.w-t.a[0].w, t.a[0].ref())
	}
	var sb strings.Builder
	sb.WriteByte('(')
	sb.WriteString(opNames[t.op])
	for _, a := range t.a {
		if a == nil {
			break
		}
		sb.WriteByte(' ')
		sb.WriteString(a.ref())
	}
	sb.WriteByte(')')
	return sb.String()
}

func (t *Term) String() string {
	return t.str(4)
}

func (t *Term) str(d int) string {
	switch t.op {
	case OpConst:
		if t.w == 0 {
			return smtConst(0, t.val)
		}
		return fmt.Sprintf("%d:%d", sext64(t.val, t.w), t.w)
	case OpVar:
		return t.name
	}
	if d == 0 {
		return fmt.Sprintf("t%d", t.id)
	}
	var sb strings.Builder
	sb.WriteByte('(')
	sb.WriteString(opNames[t.op])
	if t.op == OpExtract {
		fmt.Fprintf(&sb, "[%d:%d]", t.val>>8, t.val&0xff)
	}
	for _, a := range t.a {
		if a == nil {
			break
		}
		sb.WriteByte(' ')
		sb.WriteString(a.str(d - 1))
	}
	sb.WriteByte(')')
	return sb.String()
}
