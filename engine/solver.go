package main

// One persistent solver process per worker, SMT-LIB2 over a pipe.
// Terms are defined once (define-fun) at the top level and never popped;
// every query is (push)(assert ...)*(check-sat)[(get-value ...)](pop).

import (
	"context"
	"bufio"
	"fmt"
	"io"
	"os/exec"
	"strconv"
	"strings"
	"time"
)

type Result int

const (
	Unsat Result = iota
	Sat
	Unknown
)

func (r Result) String() string { return [...]string{"unsat", "sat", "unknown"}[r] }

type Solver struct {
	name    string
	cmd     *exec.Cmd
	in      io.WriteCloser
	out     *bufio.Reader
	defined map[int]bool
	declVar map[string]bool
	// stats
	Queries   int
	SatN      int
	UnsatN    int
	UnknownN  int
	Time      time.Duration
	timeoutMs int
	log       io.Writer
	dead      bool
	lines     chan string
	stack     []*Term
}

func solverArgv(kind string, timeoutMs int) []string {
	switch kind {
	case "z3":
		return []string{"z3", "-in", fmt.Sprintf("-t:%d", timeoutMs)}
	case "z3-new":
		return []string{"z3-new", "-in", fmt.Sprintf("-t:%d", timeoutMs)}
	case "cvc5":
		return []string{"cvc5", "--incremental", "--lang=smt2", "--produce-models", fmt.Sprintf("--tlimit-per=%d", timeoutMs)}
	}
	panic("unknown solver " + kind)
}

func NewSolver(kind string, timeoutMs int) (*Solver, error) {
	argv := solverArgv(kind, timeoutMs)
	cmd := exec.Command(argv[0], argv[1:]...)
	in, err := cmd.StdinPipe()
	if err != nil {
		return nil, err
	}
	out, err := cmd.StdoutPipe()
	if err != nil {
		return nil, err
	}
	cmd.Stderr = nil
	if err := cmd.Start(); err != nil {
		return nil, err
	}
	s := &Solver{name: kind, cmd: cmd, in: in, out: bufio.NewReaderSize(out, 1<<16), defined: map[int]bool{}, declVar: map[string]bool{}, timeoutMs: timeoutMs}
	s.lines = make(chan string, 64)
	go func(r *bufio.Reader, ch chan string) {
		defer close(ch)
		for {
			l, err := r.ReadString('\n')
			if l != "" {
				ch <- l
			}
			if err != nil {
				return
			}
		}
	}(s.out, s.lines)
	if kind == "cvc5" {
		s.send("(set-logic QF_BV)\n")
	}
	s.send("(set-option :produce-models true)\n(set-option :global-declarations true)\n")
	return s, nil
}

func (s *Solver) Close() {
	if s == nil || s.dead {
		return
	}
	s.dead = true
	s.in.Close()
	s.cmd.Process.Kill()
	s.cmd.Wait()
}

func (s *Solver) send(str string) {
	if s.log != nil {
		io.WriteString(s.log, str)
	}
	if len(str) < 32768 {
		io.WriteString(s.in, str)
		return
	}
	// large batches can block on a solver that stopped reading: write with a hard timeout
	done := make(chan struct{})
	go func() { io.WriteString(s.in, str); close(done) }()
	select {
	case <-done:
	case <-time.After(time.Duration(s.timeoutMs)*time.Millisecond + 20*time.Second):
		s.cmd.Process.Kill()
		<-done
	}
}

func (s *Solver) define(sb *strings.Builder, t *Term) {
	// iterative post-order to avoid deep recursion on long chains
	type item struct {
		t    *Term
		done bool
	}
	st := []item{{t, false}}
	for len(st) > 0 {
		it := st[len(st)-1]
		st = st[:len(st)-1]
		u := it.t
		if u.op == OpConst {
			continue
		}
		if u.op == OpVar {
			if sym := smtVarName(u); !s.declVar[sym] {
				s.declVar[sym] = true
				fmt.Fprintf(sb, "(declare-const |%s| %s)\n", sym, sortOf(u.w))
			}
			continue
		}
		if s.defined[u.id] {
			continue
		}
		if it.done {
			s.defined[u.id] = true
			fmt.Fprintf(sb, "(define-fun t%d () %s %s)\n", u.id, sortOf(u.w), u.body())
			continue
		}
		st = append(st, item{u, true})
		for _, a := range u.a {
			if a != nil {
				st = append(st, item{a, false})
			}
		}
	}
}

// Check decides satisfiability of pc ∧ extra. The path condition is kept asserted on the solver's
// stack (one push level per conjunct) and only the suffix that differs from the previous query is
// popped and re-asserted, so consecutive queries along one path (and along sibling paths of the
// depth-first exploration) cost one assertion each. If vars != nil and the result is sat, a model
// for those variables is returned.
func (s *Solver) Check(pc []*Term, vars []*Term) (Result, Model, error) {
	start := time.Now()
	defer func() { s.Time += time.Since(start) }()
	s.Queries++
	if len(pc) == 0 {
		return Sat, Model{}, nil
	}
	extra := pc[len(pc)-1]
	pc = pc[:len(pc)-1]
	var sb strings.Builder
	for _, a := range pc {
		if a.IsFalse() {
			s.UnsatN++
			return Unsat, nil, nil
		}
	}
	if extra.IsFalse() {
		s.UnsatN++
		return Unsat, nil, nil
	}
	// common prefix with what is asserted
	k := 0
	for k < len(s.stack) && k < len(pc) && s.stack[k] == pc[k] {
		k++
	}
	if n := len(s.stack) - k; n > 0 {
		fmt.Fprintf(&sb, "(pop %d)\n", n)
		s.stack = s.stack[:k]
	}
	for _, a := range pc[k:] {
		s.define(&sb, a)
		fmt.Fprintf(&sb, "(push 1)\n(assert %s)\n", a.ref())
		s.stack = append(s.stack, a)
	}
	s.define(&sb, extra)
	for _, v := range vars {
		s.define(&sb, v)
	}
	fmt.Fprintf(&sb, "(push 1)\n(assert %s)\n(check-sat)\n", extra.ref())
	s.send(sb.String())
	line, err := s.readLine()
	if err != nil {
		return Unknown, nil, err
	}
	var res Result
	switch line {
	case "sat":
		res = Sat
		s.SatN++
	case "unsat":
		res = Unsat
		s.UnsatN++
	case "unknown", "timeout":
		res = Unknown
		s.UnknownN++
	default:
		// (error ...) or anything unexpected: inconclusive; the caller restarts the solver
		s.UnknownN++
		return Unknown, nil, fmt.Errorf("solver %s said: %s", s.name, line)
	}
	var model Model
	if res == Sat && len(vars) > 0 {
		var q strings.Builder
		q.WriteString("(get-value (")
		for _, v := range vars {
			q.WriteString(v.ref())
			q.WriteByte(' ')
		}
		q.WriteString("))\n")
		s.send(q.String())
		txt, err := s.readSexp()
		if err != nil {
			return Unknown, nil, err
		}
		model, err = parseModel(txt)
		if err != nil {
			return Unknown, nil, err
		}
	}
	s.send("(pop 1)\n")
	return res, model, nil
}

func (s *Solver) rawLine() (string, error) {
	select {
	case l, ok := <-s.lines:
		if !ok {
			return "", fmt.Errorf("solver %s died", s.name)
		}
		return l, nil
	case <-time.After(time.Duration(s.timeoutMs)*time.Millisecond + 3*time.Second):
		// the soft timeout was not honoured: hard kill; the caller restarts the solver
		s.cmd.Process.Kill()
		return "", fmt.Errorf("solver %s exceeded its hard timeout", s.name)
	}
}

func (s *Solver) readLine() (string, error) {
	for {
		l, err := s.rawLine()
		if err != nil {
			return "", err
		}
		l = strings.TrimSpace(l)
		if l == "" {
			continue
		}
		return l, nil
	}
}

// readSexp reads one balanced s-expression (possibly spanning lines).
func (s *Solver) readSexp() (string, error) {
	var sb strings.Builder
	depth := 0
	started := false
	inBar := false
	for {
		l, err := s.rawLine()
		if err != nil {
			return "", err
		}
		for i := 0; i < len(l); i++ {
			c := l[i]
			sb.WriteByte(c)
			if c == '|' {
				inBar = !inBar
			}
			if inBar {
				continue
			}
			if c == '(' {
				depth++
				started = true
			} else if c == ')' {
				depth--
				if started && depth == 0 {
					return sb.String(), nil
				}
			}
		}
	}
}

// parseModel parses ((|a| #x..) (|b| true) ...)
func parseModel(txt string) (Model, error) {
	if strings.Contains(txt, "(error") {
		return nil, fmt.Errorf("get-value: %s", txt)
	}
	m := Model{}
	i := 0
	n := len(txt)
	skip := func() {
		for i < n && (txt[i] == ' ' || txt[i] == '\n' || txt[i] == '\r' || txt[i] == '\t') {
			i++
		}
	}
	skip()
	if i >= n || txt[i] != '(' {
		return nil, fmt.Errorf("bad model %q", txt)
	}
	i++
	for {
		skip()
		if i >= n {
			return nil, fmt.Errorf("bad model %q", txt)
		}
		if txt[i] == ')' {
			break
		}
		if txt[i] != '(' {
			return nil, fmt.Errorf("bad model entry at %d in %q", i, txt)
		}
		i++
		skip()
		var name string
		if txt[i] == '|' {
			j := strings.IndexByte(txt[i+1:], '|')
			name = txt[i+1 : i+1+j]
			i += j + 2
		} else {
			j := i
			for j < n && txt[j] != ' ' && txt[j] != ')' {
				j++
			}
			name = txt[i:j]
			i = j
		}
		skip()
		j := i
		depth := 0
		for j < n {
			if txt[j] == '(' {
				depth++
			} else if txt[j] == ')' {
				if depth == 0 {
					break
				}
				depth--
			}
			j++
		}
		val := strings.TrimSpace(txt[i:j])
		i = j + 1
		var v uint64
		switch {
		case val == "true":
			v = 1
		case val == "false":
			v = 0
		case strings.HasPrefix(val, "#x"):
			v, _ = strconv.ParseUint(val[2:], 16, 64)
		case strings.HasPrefix(val, "#b"):
			v, _ = strconv.ParseUint(val[2:], 2, 64)
		case strings.HasPrefix(val, "(_ bv"):
			f := strings.Fields(val[5:])
			v, _ = strconv.ParseUint(f[0], 10, 64)
		default:
			return nil, fmt.Errorf("bad model value %q", val)
		}
		m[inputOfSMT(name)] = v
	}
	return m, nil
}

// OneShot runs a fresh solver process on a standalone script (used as fallback when the
// persistent bit-blasting solver answers unknown): cvc5 with the integer encoding of
// bit-vector arithmetic, which keeps the mod-2^k semantics.
func OneShot(argv []string, asserts []*Term, vars []*Term, timeout time.Duration) (Result, Model, error) {
	tmp := &Solver{defined: map[int]bool{}, declVar: map[string]bool{}}
	var sb strings.Builder
	sb.WriteString("(set-logic ALL)\n(set-option :produce-models true)\n")
	for _, a := range asserts {
		tmp.define(&sb, a)
	}
	for _, v := range vars {
		tmp.define(&sb, v)
	}
	for _, a := range asserts {
		fmt.Fprintf(&sb, "(assert %s)\n", a.ref())
	}
	sb.WriteString("(check-sat)\n")
	cmd := exec.Command(argv[0], argv[1:]...)
	cmd.Stdin = strings.NewReader(sb.String())
	done := make(chan struct{})
	var out []byte
	var err error
	go func() { out, err = cmd.Output(); close(done) }()
	select {
	case <-done:
	case <-time.After(timeout + 2*time.Second):
		if cmd.Process != nil {
			cmd.Process.Kill()
		}
		<-done
		return Unknown, nil, nil
	}
	txt := strings.TrimSpace(string(out))
	first, _, _ := strings.Cut(txt, "\n")
	switch strings.TrimSpace(first) {
	case "unsat":
		return Unsat, nil, nil
	case "sat":
		if len(vars) == 0 {
			return Sat, Model{}, nil
		}
		// second run asking for the model (cheap: same script + get-value)
		var q strings.Builder
		q.WriteString(sb.String())
		q.WriteString("(get-value (")
		for _, v := range vars {
			q.WriteString(v.ref() + " ")
		}
		q.WriteString("))\n")
		cmd2 := exec.Command(argv[0], argv[1:]...)
		cmd2.Stdin = strings.NewReader(q.String())
		out2, _ := cmd2.Output()
		t2 := string(out2)
		if i := strings.Index(t2, "(("); i >= 0 {
			if m, e := parseModel(t2[i:]); e == nil {
				return Sat, m, nil
			}
		}
		return Sat, nil, nil
	case "unknown", "timeout", "":
		return Unknown, nil, nil
	}
	_ = err
	return Unknown, nil, fmt.Errorf("fallback solver said: %s", first)
}

// Standalone returns a self-contained SMT-LIB2 script for the conjunction of asserts.
func Standalone(asserts []*Term) string {
	tmp := &Solver{defined: map[int]bool{}, declVar: map[string]bool{}}
	var sb strings.Builder
	for _, a := range asserts {
		tmp.define(&sb, a)
	}
	for _, a := range asserts {
		fmt.Fprintf(&sb, "(assert %s)\n", a.ref())
	}
	sb.WriteString("(check-sat)\n")
	return sb.String()
}

// RunScript feeds a standalone script to a fresh solver process and returns its first verdict.
func RunScript(argv []string, script string, timeout time.Duration) Result {
	ctx, cancel := context.WithTimeout(context.Background(), timeout)
	defer cancel()
	cmd := exec.CommandContext(ctx, argv[0], argv[1:]...)
	cmd.Stdin = strings.NewReader("(set-logic ALL)\n" + script)
	out, _ := cmd.Output()
	for _, l := range strings.Split(string(out), "\n") {
		switch strings.TrimSpace(l) {
		case "sat":
			return Sat
		case "unsat":
			return Unsat
		}
		if strings.Contains(l, "(error") {
			return Unknown
		}
	}
	return Unknown
}
