package main

import (
	"encoding/json"
	"flag"
	"fmt"
	"os"
	"path/filepath"
	"regexp"
	"strings"
	"time"

	"golang.org/x/tools/go/packages"
	"golang.org/x/tools/go/ssa"
	"golang.org/x/tools/go/ssa/ssautil"
)

var repoDir = "/repo" // VERIF_REPO overrides (background sweeps run against a snapshot of /repo)
const modPath = "github.com/pinealctx/neptune"

var verifDir = "/verif"

func init() {
	if r := os.Getenv("VERIF_REPO"); r != "" {
		repoDir = r
	}
	if d := os.Getenv("VERIF_DIR"); d != "" {
		verifDir = d
	} else if exe, err := os.Executable(); err == nil {
		// <verif>/bin/symgo
		d := filepath.Dir(filepath.Dir(exe))
		if _, err := os.Stat(filepath.Join(d, "symx", "symx.go")); err == nil {
			verifDir = d
		}
	}
}

// overlayFor maps harness files (relative to <verif>/harness) into their packages under /repo.
// files: "idgen_nano/zz_verif_nano.go" with pkg "idgen/nano" -> /repo/idgen/nano/zz_verif_nano.go
func overlayFor(groups []Group) (map[string][]byte, map[string]string, error) {
	ov := map[string][]byte{}
	paths := map[string]string{}
	sx := filepath.Join(verifDir, "symx", "symx.go")
	b, err := os.ReadFile(sx)
	if err != nil {
		return nil, nil, err
	}
	ov[filepath.Join(repoDir, "zzsymx", "symx.go")] = b
	paths[filepath.Join(repoDir, "zzsymx", "symx.go")] = sx
	for _, g := range groups {
		for _, f := range g.Files {
			src := filepath.Join(verifDir, "harness", f)
			b, err := os.ReadFile(src)
			if err != nil {
				return nil, nil, err
			}
			dst := filepath.Join(repoDir, g.Pkg, filepath.Base(f))
			ov[dst] = b
			paths[dst] = src
		}
		for _, a := range g.Aux {
			src := filepath.Join(verifDir, "harness", a.File)
			b, err := os.ReadFile(src)
			if err != nil {
				return nil, nil, err
			}
			dst := filepath.Join(repoDir, a.Pkg, filepath.Base(a.File))
			ov[dst] = b
			paths[dst] = src
		}
	}
	return ov, paths, nil
}

func loadProgram(groups []Group) (*ssa.Program, map[string]*ssa.Package, error) {
	ov, _, err := overlayFor(groups)
	if err != nil {
		return nil, nil, err
	}
	cfg := &packages.Config{
		Mode:    packages.LoadAllSyntax,
		Dir:     repoDir,
		Overlay: ov,
		Env:     append(os.Environ(), "GOFLAGS=-mod=mod", "GOPROXY=off", "GOSUMDB=off", "GOTOOLCHAIN=local"),
	}
	var patterns []string
	seen := map[string]bool{}
	for _, g := range groups {
		p := "./" + g.Pkg
		if !seen[p] {
			seen[p] = true
			patterns = append(patterns, p)
		}
	}
	pkgs, err := packages.Load(cfg, patterns...)
	if err != nil {
		return nil, nil, err
	}
	var errs []string
	packages.Visit(pkgs, nil, func(p *packages.Package) {
		for _, e := range p.Errors {
			errs = append(errs, e.Error())
		}
	})
	if len(errs) > 0 {
		if len(errs) > 10 {
			errs = errs[:10]
		}
		return nil, nil, fmt.Errorf("harness does not build against the current tree:\n  %s", strings.Join(errs, "\n  "))
	}
	prog, spkgs := ssautil.AllPackages(pkgs, ssa.InstantiateGenerics)
	prog.Build()
	out := map[string]*ssa.Package{}
	for i, p := range pkgs {
		rel := strings.TrimPrefix(p.PkgPath, modPath+"/")
		out[rel] = spkgs[i]
	}
	return prog, out, nil
}

type Tier struct {
	Params        map[string]int64 `json:"params"`
	Unwind        int              `json:"unwind"`
	MaxPaths      int              `json:"max_paths"`
	TimeoutMs     int              `json:"timeout_ms"`
	PreemptBound  *int             `json:"preempt_bound"`
	CondSignalAny bool             `json:"cond_signal_any"`
	MaxFork       int              `json:"max_fork"`
	MaxAlloc      int              `json:"max_alloc"`
	MaxInstrs     int              `json:"max_instrs"`
	MaxDecisions  int              `json:"max_decisions"`
	Skip          bool             `json:"skip"`
	WallS         int              `json:"wall_s"`
	Sweep         map[string][]int64 `json:"sweep"`
	Families      []map[string]int64 `json:"families"`
}

// AuxFile: a helper harness file overlaid into another package than the group's.
type AuxFile struct {
	Pkg  string `json:"pkg"`
	File string `json:"file"`
}

type Group struct {
	Pkg      string   `json:"pkg"`
	Files    []string `json:"files"`
	Funcs    string   `json:"funcs"`
	Quick    Tier     `json:"quick"`
	Thorough Tier     `json:"thorough"`
	NoopPkgs []string `json:"noop_pkgs"`
	Aux      []AuxFile `json:"aux"`
	Note     string   `json:"note"`
}

func applyTier(cfg *Config, t Tier) {
	if t.Unwind > 0 {
		cfg.Unwind = t.Unwind
	}
	if t.MaxPaths > 0 {
		cfg.MaxPaths = t.MaxPaths
	}
	if t.TimeoutMs > 0 {
		cfg.TimeoutMs = t.TimeoutMs
	}
	if t.PreemptBound != nil {
		cfg.PreemptBound = *t.PreemptBound
	}
	if t.MaxFork > 0 {
		cfg.MaxFork = t.MaxFork
	}
	if t.MaxAlloc > 0 {
		cfg.MaxAlloc = t.MaxAlloc
	}
	if t.MaxInstrs > 0 {
		cfg.MaxInstrs = t.MaxInstrs
	}
	if t.MaxDecisions > 0 {
		cfg.MaxDecisions = t.MaxDecisions
	}
	if t.WallS > 0 {
		cfg.WallBudget = time.Duration(t.WallS) * time.Second
	}
	cfg.CondSignalAny = t.CondSignalAny
	cfg.Params = t.Params
}

func cmdRun(args []string) int {
	fs := flag.NewFlagSet("run", flag.ExitOnError)
	pkg := fs.String("pkg", "", "package dir relative to /repo")
	files := fs.String("files", "", "comma separated harness files relative to <verif>/harness")
	funcs := fs.String("func", ".*", "regexp over harness names")
	workers := fs.Int("workers", 8, "")
	unwind := fs.Int("unwind", 256, "")
	maxPaths := fs.Int("max-paths", 200000, "")
	solver := fs.String("solver", "z3-new", "")
	timeout := fs.Int("timeout-ms", 10000, "")
	preempt := fs.Int("preempt", -1, "")
	fallback := fs.Int("fallback-ms", 60000, "")
	params := fs.String("params", "", "k=v,k=v")
	verbose := fs.Bool("v", false, "")
	aux := fs.String("aux", "", "pkg:file,pkg:file helper files overlaid into other packages")
	fs.Parse(args)
	g := Group{Pkg: *pkg, Funcs: *funcs}
	if *files != "" {
		g.Files = strings.Split(*files, ",")
	}
	if *aux != "" {
		for _, a := range strings.Split(*aux, ",") {
			pk, f, _ := strings.Cut(a, ":")
			g.Aux = append(g.Aux, AuxFile{pk, f})
		}
	}
	t0 := time.Now()
	prog, pkgs, err := loadProgram([]Group{g})
	if err != nil {
		fmt.Fprintln(os.Stderr, err)
		return 2
	}
	fmt.Fprintf(os.Stderr, "loaded in %.1fs\n", time.Since(t0).Seconds())
	cfg := DefaultConfig()
	cfg.Workers = *workers
	cfg.Unwind = *unwind
	cfg.MaxPaths = *maxPaths
	cfg.Solver = *solver
	cfg.TimeoutMs = *timeout
	cfg.PreemptBound = *preempt
	cfg.FallbackMs = *fallback
	cfg.Params = map[string]int64{}
	if *params != "" {
		for _, kv := range strings.Split(*params, ",") {
			k, v, _ := strings.Cut(kv, "=")
			var n int64
			fmt.Sscan(v, &n)
			cfg.Params[k] = n
		}
	}
	ex := NewExplorer(prog, cfg)
	re := regexp.MustCompile(*funcs)
	rc := 0
	for _, fn := range harnessFuncs(pkgs[*pkg], re) {
		res := ex.RunHarness(fn)
		b, _ := json.MarshalIndent(res, "", " ")
		if *verbose {
			fmt.Println(string(b))
		} else {
			fmt.Printf("%s: paths=%d ends=%v asserts=%d/%d unknown=%d violations=%d inconclusive=%v races=%d reached=%d wall=%.1fs queries=%d solver=%.1fs\n",
				res.Name, res.Paths, res.EndKinds, res.Discharged, res.Asserts, res.Unknowns, len(res.Violations), res.Inconclusive, len(res.Races), len(res.Reached), res.Wall, res.Queries, res.SolverTime)
			for _, v := range res.Violations {
				fmt.Printf("   VIOLATION %s %s model=%v\n", v.Kind, v.Label, v.Model)
			}
			for _, r := range res.Races {
				fmt.Printf("   RACE %s\n", r)
			}
			for _, s := range res.SatFail {
				fmt.Printf("   SAT-FAIL %s\n", s)
			}
		}
		if len(res.Violations) > 0 {
			rc = 1
		}
	}
	return rc
}

func main() {
	if len(os.Args) < 2 {
		fmt.Fprintln(os.Stderr, "usage: symgo run|check|replay|conformance ...")
		os.Exit(2)
	}
	switch os.Args[1] {
	case "run":
		os.Exit(cmdRun(os.Args[2:]))
	case "check":
		os.Exit(cmdCheck(os.Args[2:]))
	case "replay":
		os.Exit(cmdReplay(os.Args[2:]))
	case "selftest":
		os.Exit(cmdSelftest())
	default:
		fmt.Fprintln(os.Stderr, "unknown command "+os.Args[1])
		os.Exit(2)
	}
}

// selftest: solver plumbing and term semantics (evaluator vs solver) on a fixed set of identities.
func cmdSelftest() int {
	ts := NewTermStore()
	for _, kind := range []string{"z3-new", "z3", "cvc5"} {
		s, err := NewSolver(kind, 10000)
		if err != nil {
			fmt.Println("selftest: cannot start", kind, err)
			return 2
		}
		x, y := ts.Var("x", 64), ts.Var("y", 64)
		// x+y == y+x is valid; x-y == y-x is not
		r1, _, _ := s.Check([]*Term{ts.Ne(ts.Bin(OpAdd, x, y), ts.Bin(OpAdd, y, x))}, nil)
		s.stack = nil
		r2, m, _ := s.Check([]*Term{ts.mk(OpNot, 0, 0, "", ts.mk(OpEq, 0, 0, "", ts.mk(OpSub, 64, 0, "", x, y), ts.mk(OpSub, 64, 0, "", y, x)))}, []*Term{x, y})
		s.Close()
		if r1 != Unsat || r2 != Sat {
			fmt.Println("selftest: unexpected verdicts", r1, r2)
			return 2
		}
		ev := NewEvaluator(m)
		if ev.Eval(ts.Bin(OpSub, x, y)) == ev.Eval(ts.Bin(OpSub, y, x)) {
			fmt.Println("selftest: model does not evaluate as the solver said")
			return 2
		}
	}
	if !simpSelfcheck(ts) {
		return 2
	}
	if !simpFuzz(60000, 1) {
		return 2
	}
	if !printerFuzz(400, 7) {
		return 2
	}
	fmt.Println("selftest ok")
	return 0
}

// simpSelfcheck discharges, with the solver, that the range-based simplifier rules (division by a
// constant over a narrow range, bounds of add/sub/neg/mul) rewrite terms to equal terms and that
// the cached unsigned bounds contain the term: raw (unsimplified) vs simplified must be unsat-different.
func simpSelfcheck(ts *TermStore) bool {
	s, err := NewSolver("z3-new", 20000)
	if err != nil {
		fmt.Println("selftest: cannot start z3-new", err)
		return false
	}
	defer s.Close()
	d := ts.ZExt(ts.Var("d10", 10), 64)
	e := ts.ZExt(ts.Var("e4", 4), 64)
	bases := []uint64{0, 5, 999, 1<<63 - 1024, 1 << 63, ^uint64(0) - 1023, 123456789012, 1 << 20}
	var xs []*Term
	for _, b := range bases {
		x := ts.Bin(OpAdd, d, ts.Const(64, b))
		if b < 1<<32 {
			xs = append(xs, ts.Bin(OpAdd, ts.ZExt(ts.Var("v22", 22), 64), ts.Const(64, b)))
		}
		xs = append(xs, x, ts.Neg(x), ts.Bin(OpSub, ts.Const(64, b|1<<40), d), ts.Bin(OpMul, x, ts.Const(64, 3)),
			ts.Bin(OpAdd, ts.Bin(OpMul, e, ts.Const(64, 1000)), x), ts.Bin(OpAdd, x, ts.Const(64, -b)))
	}
	n := 0
	check := func(what string, bad *Term) bool {
		s.stack = nil
		r, m, _ := s.Check([]*Term{bad}, nil)
		n++
		if r == Unknown {
			// multiplications by large constants: the integer encoding decides them
			r, m, _ = OneShot([]string{"cvc5", "--solve-bv-as-int=sum", "--tlimit=60000"}, []*Term{bad}, nil, 60*time.Second)
		}
		if r != Unsat {
			fmt.Println("selftest: simplifier rule not valid:", what, r, m)
			return false
		}
		return true
	}
	// (x*c)/c = x
	for _, c := range []uint64{3, 1000, 1000000} {
		for _, x := range []*Term{ts.Bin(OpAdd, d, ts.Const(64, 77)), ts.ZExt(ts.Var("v22", 22), 64)} {
			k := ts.Const(64, c)
			p := ts.Bin(OpMul, x, k)
			raw, simp := ts.mk(OpUDiv, 64, 0, "", p, k), ts.Bin(OpUDiv, p, k)
			if !check(fmt.Sprintf("(%s*%d)/%d", x, c, c), ts.mk(OpNot, 0, 0, "", ts.mk(OpEq, 0, 0, "", raw, simp))) {
				return false
			}
		}
	}
	for _, x := range xs {
		lo, hi := ts.ubounds(x)
		out := ts.mk(OpOr, 0, 0, "", ts.mk(OpULt, 0, 0, "", x, ts.Const(64, lo)), ts.mk(OpULt, 0, 0, "", ts.Const(64, hi), x))
		if !check(fmt.Sprintf("ubounds %s in [%d,%d]", x, lo, hi), out) {
			return false
		}
		for _, c := range []uint64{3, 10, 100, 1000, 1000000000} {
			k := ts.Const(64, c)
			for _, op := range []Op{OpUDiv, OpURem, OpSDiv, OpSRem, OpMul} {
				raw := ts.mk(op, 64, 0, "", x, k)
				simp := ts.Bin(op, x, k)
				if raw == simp {
					continue
				}
				if !check(fmt.Sprintf("%s %s %d", opNames[op], x, c), ts.mk(OpNot, 0, 0, "", ts.mk(OpEq, 0, 0, "", raw, simp))) {
					return false
				}
			}
		}
	}
	fmt.Printf("selftest: %d simplifier-rule queries unsat\n", n)
	return true
}
