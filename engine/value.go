package main

import (
	"fmt"
	"go/types"
	"strings"

	"golang.org/x/tools/go/ssa"
)

// Values (boxed in `value`):
//   *Term              bool, integers, floats (as raw bits), uintptr
//   Str                string: concrete length, symbolic bytes
//   Struct, Array      flattened one level ([]value, slots addressable)
//   Ptr                pointer to a slot (or symbolic element of a slot array)
//   Slice              []value window with Go's own len/cap
//   *Map, *Chan        reference objects
//   Iface              (dynamic type, value)
//   *Closure           function values (nil *Closure = nil func)
//   Tuple              multi-value results
//   *Iter              range iterator
//   Opaque             opaque external object (error sentinels, stub results)

type value = any

type Str struct{ b []*Term }
type Struct []value
type Array []value
type Tuple []value

type Slice struct {
	a     []value
	isNil bool
}

type Ptr struct {
	p   *value
	arr []value // symbolic element pointer: arr[idx]
	idx *Term
	// identity of the object a derived pointer belongs to (for unsafe/opaque use)
}

func (p Ptr) IsNil() bool { return p.p == nil && p.arr == nil }

type Iface struct {
	t types.Type
	v value
}

type Closure struct {
	fn  *ssa.Function
	env []value
	bi  *ssa.Builtin
	// native: a function value implemented by the engine (e.g. the swapper sort.Slice gets from reflection)
	native func(in *Interp, caller *frame, args []value) value
}

type Map struct {
	keys []value
	vals []value
	kt   types.Type
	vt   types.Type
	id   int
}

type Opaque struct {
	kind string
	id   int
	data any
}

type Iter struct {
	// map
	m    *Map
	keys []value
	vals []value
	pos  int
	// string
	s   Str
	str bool
}

func mkStr(ts *TermStore, s string) Str {
	b := make([]*Term, len(s))
	for i := 0; i < len(s); i++ {
		b[i] = ts.Const(8, uint64(s[i]))
	}
	return Str{b}
}

// concrete string if all bytes are constants
func (s Str) Concrete() (string, bool) {
	var sb strings.Builder
	for _, t := range s.b {
		if !t.IsConst() {
			return "", false
		}
		sb.WriteByte(byte(t.val))
	}
	return sb.String(), true
}

func (s Str) String() string {
	if c, ok := s.Concrete(); ok {
		return fmt.Sprintf("%q", c)
	}
	return fmt.Sprintf("str[%d]", len(s.b))
}

// ---------------------------------------------------------------------------

func under(t types.Type) types.Type {
	for {
		u := t.Underlying()
		if tp, ok := u.(*types.TypeParam); ok {
			_ = tp
			panic("uninstantiated type parameter " + t.String())
		}
		return u
	}
}

var sizes = types.SizesFor("gc", "amd64")

func basicWidth(b *types.Basic) int {
	switch b.Kind() {
	case types.Bool, types.UntypedBool:
		return 0
	case types.Int8, types.Uint8:
		return 8
	case types.Int16, types.Uint16:
		return 16
	case types.Int32, types.Uint32, types.Float32, types.UntypedRune:
		return 32
	case types.Int, types.Uint, types.Int64, types.Uint64, types.Uintptr, types.Float64, types.UntypedInt, types.UntypedFloat, types.UnsafePointer:
		return 64
	}
	return -1
}

func isSigned(b *types.Basic) bool  { return b.Info()&types.IsInteger != 0 && b.Info()&types.IsUnsigned == 0 }
func isInteger(b *types.Basic) bool { return b.Info()&types.IsInteger != 0 }
func isFloat(b *types.Basic) bool   { return b.Info()&types.IsFloat != 0 }
func isStringT(t types.Type) bool {
	b, ok := under(t).(*types.Basic)
	return ok && b.Info()&types.IsString != 0
}

func (in *Interp) zero(t types.Type) value {
	switch t := under(t).(type) {
	case *types.Basic:
		if t.Kind() == types.UnsafePointer {
			return Ptr{}
		}
		if t.Info()&types.IsString != 0 {
			return Str{}
		}
		if t.Info()&types.IsComplex != 0 {
			in.unsupported("complex numbers")
		}
		if t.Kind() == types.UntypedNil {
			return nil
		}
		w := basicWidth(t)
		if w < 0 {
			in.unsupported("basic type " + t.String())
		}
		return in.ts.Const(w, 0)
	case *types.Pointer:
		return Ptr{}
	case *types.Struct:
		s := make(Struct, t.NumFields())
		for i := range s {
			s[i] = in.zero(t.Field(i).Type())
		}
		return s
	case *types.Array:
		a := make(Array, t.Len())
		for i := range a {
			a[i] = in.zero(t.Elem())
		}
		return a
	case *types.Slice:
		return Slice{isNil: true}
	case *types.Map:
		return (*Map)(nil)
	case *types.Chan:
		return (*Chan)(nil)
	case *types.Interface:
		return Iface{}
	case *types.Signature:
		return (*Closure)(nil)
	case *types.Tuple:
		if t.Len() == 1 {
			return in.zero(t.At(0).Type())
		}
		tu := make(Tuple, t.Len())
		for i := range tu {
			tu[i] = in.zero(t.At(i).Type())
		}
		return tu
	}
	in.unsupported("zero of " + t.String())
	return nil
}

// copyVal returns a deep copy of aggregates (value semantics); everything
// else is immutable or a reference.
func copyVal(v value) value {
	switch v := v.(type) {
	case Struct:
		c := make(Struct, len(v))
		for i, x := range v {
			c[i] = copyVal(x)
		}
		return c
	case Array:
		c := make(Array, len(v))
		for i, x := range v {
			c[i] = copyVal(x)
		}
		return c
	}
	return v
}

// storeInto overwrites the slot in place, keeping the identity of nested
// aggregate slots (outstanding field pointers stay valid).
func storeInto(dst *value, v value) {
	switch v := v.(type) {
	case Struct:
		if d, ok := (*dst).(Struct); ok && len(d) == len(v) {
			for i := range v {
				storeInto(&d[i], v[i])
			}
			return
		}
		*dst = copyVal(v)
	case Array:
		if d, ok := (*dst).(Array); ok && len(d) == len(v) {
			for i := range v {
				storeInto(&d[i], v[i])
			}
			return
		}
		*dst = copyVal(v)
	default:
		*dst = v
	}
}

func isScalar(v value) bool {
	_, ok := v.(*Term)
	return ok
}

// ite over values of identical shape (scalars, strings of equal length, aggregates thereof)
func (in *Interp) iteVal(c *Term, a, b value) (value, bool) {
	switch x := a.(type) {
	case *Term:
		y, ok := b.(*Term)
		if !ok || x.w != y.w {
			return nil, false
		}
		return in.ts.Ite(c, x, y), true
	case Str:
		y, ok := b.(Str)
		if !ok || len(x.b) != len(y.b) {
			return nil, false
		}
		r := make([]*Term, len(x.b))
		for i := range r {
			r[i] = in.ts.Ite(c, x.b[i], y.b[i])
		}
		return Str{r}, true
	case Struct:
		y, ok := b.(Struct)
		if !ok || len(x) != len(y) {
			return nil, false
		}
		r := make(Struct, len(x))
		for i := range r {
			v, ok := in.iteVal(c, x[i], y[i])
			if !ok {
				return nil, false
			}
			r[i] = v
		}
		return r, true
	case Array:
		y, ok := b.(Array)
		if !ok || len(x) != len(y) {
			return nil, false
		}
		r := make(Array, len(x))
		for i := range r {
			v, ok := in.iteVal(c, x[i], y[i])
			if !ok {
				return nil, false
			}
			r[i] = v
		}
		return r, true
	case Ptr:
		y, ok := b.(Ptr)
		if ok && x.p == y.p && x.arr == nil && y.arr == nil {
			return x, true
		}
	}
	return nil, false
}

// equals builds the Bool term for x == y at static type t.
func (in *Interp) equals(t types.Type, x, y value) *Term {
	ts := in.ts
	switch a := x.(type) {
	case *Term:
		b := y.(*Term)
		if bt, ok := under(t).(*types.Basic); ok && isFloat(bt) {
			return in.floatCmp("==", bt, a, b)
		}
		return ts.Eq(a, b)
	case Str:
		b := y.(Str)
		if len(a.b) != len(b.b) {
			return ts.False
		}
		r := ts.True
		for i := range a.b {
			r = ts.And(r, ts.Eq(a.b[i], b.b[i]))
		}
		return r
	case Ptr:
		b := y.(Ptr)
		if a.arr != nil || b.arr != nil {
			if a.arr != nil && b.arr != nil && &a.arr[0] == &b.arr[0] {
				return ts.Eq(a.idx, b.idx)
			}
			in.unsupported("comparison of symbolic element pointers")
		}
		return ts.Bool(a.p == b.p)
	case Struct:
		b := y.(Struct)
		st := under(t).(*types.Struct)
		r := ts.True
		for i := range a {
			if st.Field(i).Name() == "_" {
				continue
			}
			r = ts.And(r, in.equals(st.Field(i).Type(), a[i], b[i]))
		}
		return r
	case Array:
		b := y.(Array)
		et := under(t).(*types.Array).Elem()
		r := ts.True
		for i := range a {
			r = ts.And(r, in.equals(et, a[i], b[i]))
		}
		return r
	case Iface:
		b := y.(Iface)
		if a.t == nil || b.t == nil {
			return ts.Bool(a.t == nil && b.t == nil)
		}
		if !types.Identical(a.t, b.t) {
			return ts.False
		}
		if !types.Comparable(a.t) {
			in.goPanic(in.runtimeError("comparing uncomparable type " + a.t.String()))
		}
		return in.equals(a.t, a.v, b.v)
	case *Map:
		b, _ := y.(*Map)
		return ts.Bool(a == b)
	case *Chan:
		b, _ := y.(*Chan)
		return ts.Bool(a == b)
	case *Closure:
		b, _ := y.(*Closure)
		return ts.Bool(a == b)
	case Slice:
		b := y.(Slice)
		// only comparison with nil is legal
		return ts.Bool(a.isNil && b.isNil)
	case *Opaque:
		b, _ := y.(*Opaque)
		return ts.Bool(a == b)
	case nil:
		return ts.Bool(y == nil)
	}
	in.unsupported(fmt.Sprintf("equality on %T", x))
	return nil
}

func (in *Interp) valString(v value) string {
	switch v := v.(type) {
	case *Term:
		return v.String()
	case Str:
		return v.String()
	case Struct:
		var sb strings.Builder
		sb.WriteString("{")
		for i, x := range v {
			if i > 0 {
				sb.WriteString(", ")
			}
			sb.WriteString(in.valString(x))
		}
		sb.WriteString("}")
		return sb.String()
	case Array:
		return "arr" + in.valString(Struct(v))
	case Slice:
		if v.isNil {
			return "[]nil"
		}
		return "slice" + in.valString(Struct(v.a))
	case Ptr:
		if v.IsNil() {
			return "nilptr"
		}
		return fmt.Sprintf("ptr(%p)", v.p)
	case Iface:
		if v.t == nil {
			return "nil-iface"
		}
		return fmt.Sprintf("iface(%s: %s)", v.t, in.valString(v.v))
	case Tuple:
		return "tuple" + in.valString(Struct(v))
	case *Opaque:
		return fmt.Sprintf("opaque(%s#%d)", v.kind, v.id)
	}
	return fmt.Sprintf("%T", v)
}
