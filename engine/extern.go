package main

// Intrinsics (zzsymx.*) and models for library leaves that have no Go body or
// a body the engine should not run (unsafe, reflection, logging, clocks).

import (
	"math/bits"
	"fmt"
	"go/types"
	"runtime/debug"
	"sort"
	"strconv"
	"strings"

	"golang.org/x/tools/go/ssa"
)

const symxPath = "github.com/pinealctx/neptune/zzsymx"

type xxEntry struct {
	key []*Term
	val *Term
}

type externFn func(in *Interp, caller *frame, fn *ssa.Function, args []value) value

func stackTrace() string { return string(debug.Stack()) }

func (in *Interp) panicString(p *goPanic) string {
	if v, ok := p.val.(Iface); ok {
		if v.t == nil {
			return "nil"
		}
		switch x := v.v.(type) {
		case Str:
			if types.Identical(v.t, in.ex.runtimeErrT) {
				return "runtime error: " + strings.Trim(x.String(), "\"")
			}
			return x.String()
		case *Term:
			return x.String()
		case Struct:
			if len(x) > 0 {
				if s, ok := x[0].(Str); ok {
					return v.t.String() + " " + s.String()
				}
			}
		case Ptr:
			if !x.IsNil() && x.p != nil {
				if st, ok := (*x.p).(Struct); ok && len(st) > 0 {
					if s, ok := st[0].(Str); ok {
						return v.t.String() + " " + s.String()
					}
				}
			}
		}
		return "panic of type " + v.t.String()
	}
	return fmt.Sprintf("%v", p.val)
}

func strArg(v value) string {
	s, ok := v.(Str)
	if !ok {
		return "?"
	}
	c, ok := s.Concrete()
	if !ok {
		return "?"
	}
	return c
}

// newInput creates (or, in concrete mode, looks up) a named input.
func (in *Interp) newInput(name string, w int, ty string) *Term {
	in.varSeq[name]++
	if k := in.varSeq[name]; k > 1 {
		name = fmt.Sprintf("%s#%d", name, k)
	}
	if in.ex.cfg.Concrete != nil {
		v := in.ex.cfg.Concrete[name]
		in.res.Inputs = append(in.res.Inputs, name)
		return in.ts.Const(w, v)
	}
	t := in.ts.Var(name, w)
	in.inputs = append(in.inputs, t)
	in.inputTy[name] = ty
	return t
}

func (in *Interp) currentModel() Model {
	if in.model != nil {
		return in.model
	}
	if len(in.pc) == 0 {
		in.setModel(Model{})
		return in.model
	}
	r, m := in.feasible(in.ts.True)
	if r == Sat {
		in.setModel(m)
		return m
	}
	return nil
}

func (in *Interp) fullModel(m Model) map[string]string {
	out := map[string]string{}
	for _, v := range in.inputs {
		val := m[v.name]
		ty := in.inputTy[v.name]
		switch {
		case ty == "bool":
			out[v.name] = strconv.FormatBool(val != 0)
		case strings.HasPrefix(ty, "int"):
			out[v.name] = strconv.FormatInt(sext64(val, v.w), 10)
		default:
			out[v.name] = strconv.FormatUint(val, 10)
		}
	}
	return out
}

func (in *Interp) violation(kind, label string, m Model) {
	if in.uncertain {
		// the path was kept although the solver could not decide its feasibility
		r, m2 := in.feasible(in.ts.True)
		if r == Unsat {
			panic(pathEnd{"infeasible", "path proved infeasible late"})
		}
		if r != Sat {
			in.res.Inconclusive = append(in.res.Inconclusive, "possible violation ("+kind+": "+label+") on a path whose feasibility the solver could not decide")
			return
		}
		in.uncertain = false
		in.setModel(m2)
		if m == nil {
			m = m2
		}
	}
	v := Violation{Kind: kind, Label: label, Decisions: append([]Decision(nil), in.decisions...)}
	if m != nil {
		v.Model = in.fullModel(m)
	}
	if in.knownActive != "" {
		in.res.KnownHits = append(in.res.KnownHits, KnownHit{ID: in.knownActive, V: v})
		return
	}
	in.res.Violations = append(in.res.Violations, v)
}

// assertTerm: the obligation c under the current path condition.
func (in *Interp) assertTerm(c *Term, label string) {
	in.res.Asserts++
	if c.IsTrue() {
		in.res.Discharged++
		return
	}
	if c.IsFalse() {
		in.violation("assert", label, in.currentModel())
		panic(pathEnd{"assert-failed", label})
	}
	r, m := in.feasible(in.ts.Not(c))
	switch r {
	case Unsat:
		in.res.Discharged++
		in.res.SolverAsserts++
		in.ex.noteAssertQuery(in.pc, c)
	case Sat:
		in.violation("assert", label, m)
	case Unknown:
		in.res.Unknowns++
		in.res.Inconclusive = append(in.res.Inconclusive, "solver unknown on assertion "+label)
	}
	in.assume(c)
}

func (in *Interp) assume(c *Term) {
	if c.IsTrue() {
		return
	}
	if c.IsFalse() {
		panic(pathEnd{"assume", ""})
	}
	in.addPC(c)
	if in.pos < len(in.prefix) {
		return // replaying: known feasible
	}
	if in.eval != nil && in.eval.Eval(c) != 0 {
		return
	}
	r, m := in.feasible(in.ts.True)
	switch r {
	case Sat:
		in.setModel(m)
	case Unsat:
		panic(pathEnd{"assume", ""})
	default:
		in.setModel(nil)
	}
}

func (in *Interp) boolArg(v value) *Term { return v.(*Term) }

func closureOf(v value) value { return v }

func (in *Interp) initExterns() {
	E := map[string]externFn{}
	in.extern = E
	ts := in.ts
	sx := func(name string, f externFn) { E[symxPath+"."+name] = f }

	mkInt := func(w int, ty string) externFn {
		return func(in *Interp, _ *frame, _ *ssa.Function, a []value) value {
			return in.newInput(strArg(a[0]), w, ty)
		}
	}
	sx("Bool", mkInt(0, "bool"))
	sx("Int", mkInt(64, "int64"))
	sx("Int8", mkInt(8, "int8"))
	sx("Int16", mkInt(16, "int16"))
	sx("Int32", mkInt(32, "int32"))
	sx("Int64", mkInt(64, "int64"))
	sx("Uint", mkInt(64, "uint64"))
	sx("Uint8", mkInt(8, "uint8"))
	sx("Uint16", mkInt(16, "uint16"))
	sx("Uint32", mkInt(32, "uint32"))
	sx("Uint64", mkInt(64, "uint64"))
	sx("Float64Bits", mkInt(64, "uint64"))
	sx("Range", func(in *Interp, _ *frame, _ *ssa.Function, a []value) value {
		v := in.newInput(strArg(a[0]), 64, "int64")
		in.assume(ts.And(ts.Cmp(OpSLe, a[1].(*Term), v), ts.Cmp(OpSLe, v, a[2].(*Term))))
		return v
	})
	sx("Bytes", func(in *Interp, _ *frame, _ *ssa.Function, a []value) value {
		n := in.concretize(a[1].(*Term), 0, int64(in.ex.cfg.MaxAlloc), "symx.Bytes length")
		name := strArg(a[0])
		s := make([]value, n)
		for i := range s {
			s[i] = in.newInput(fmt.Sprintf("%s[%d]", name, i), 8, "uint8")
		}
		return Slice{a: s}
	})
	sx("String", func(in *Interp, _ *frame, _ *ssa.Function, a []value) value {
		n := in.concretize(a[1].(*Term), 0, int64(in.ex.cfg.MaxAlloc), "symx.String length")
		name := strArg(a[0])
		s := make([]*Term, n)
		for i := range s {
			s[i] = in.newInput(fmt.Sprintf("%s[%d]", name, i), 8, "uint8")
		}
		return Str{s}
	})
	sx("OneOf", func(in *Interp, _ *frame, _ *ssa.Function, a []value) value {
		v := in.newInput(strArg(a[0]), 8, "uint8")
		set, ok := a[1].(Str).Concrete()
		if !ok || set == "" {
			in.unsupported("symx.OneOf needs a concrete non-empty alphabet")
		}
		c := ts.False
		for i := 0; i < len(set); i++ {
			c = ts.Or(c, ts.Eq(v, ts.Const(8, uint64(set[i]))))
		}
		in.assume(c)
		return v
	})
	sx("Assume", func(in *Interp, _ *frame, _ *ssa.Function, a []value) value {
		in.assume(a[0].(*Term))
		return nil
	})
	sx("Assert", func(in *Interp, _ *frame, _ *ssa.Function, a []value) value {
		in.assertTerm(a[0].(*Term), strArg(a[1]))
		return nil
	})
	sx("Reach", func(in *Interp, _ *frame, _ *ssa.Function, a []value) value {
		l := strArg(a[0])
		if _, ok := in.res.Reached[l]; !ok {
			m := in.currentModel()
			if m != nil {
				in.res.Reached[l] = in.fullModel(m)
			} else {
				in.res.Reached[l] = map[string]string{}
			}
		}
		return nil
	})
	sx("Sat", func(in *Interp, _ *frame, _ *ssa.Function, a []value) value {
		c := a[0].(*Term)
		l := strArg(a[1])
		r, _ := in.feasible(c)
		switch r {
		case Sat:
			in.res.SolverAsserts++
			in.res.SatOK = append(in.res.SatOK, l)
		case Unsat:
			in.res.SatFail = append(in.res.SatFail, l)
		default:
			in.res.Unknowns++
			in.res.Inconclusive = append(in.res.Inconclusive, "solver unknown on Sat obligation "+l)
		}
		return nil
	})
	sx("NoPanic", func(in *Interp, fr *frame, _ *ssa.Function, a []value) value {
		label := strArg(a[0])
		if p := in.catchPanic(fr, a[1]); p != nil {
			in.violation("panic", label+": "+in.panicString(p), in.currentModel())
			panic(pathEnd{"assert-failed", label})
		}
		return nil
	})
	sx("Panics", func(in *Interp, fr *frame, _ *ssa.Function, a []value) value {
		return ts.Bool(in.catchPanic(fr, a[0]) != nil)
	})
	sx("PanicValue", func(in *Interp, fr *frame, _ *ssa.Function, a []value) value {
		p := in.catchPanic(fr, a[0])
		if p == nil {
			return Iface{}
		}
		if v, ok := p.val.(Iface); ok {
			return v
		}
		return Iface{}
	})
	sx("Known", func(in *Interp, _ *frame, _ *ssa.Function, a []value) value {
		id := strArg(a[0])
		if !in.ex.isKnown(id) {
			return nil
		}
		c := a[1].(*Term)
		if in.branch(c) {
			in.knownActive = id
			in.res.KnownRegions = append(in.res.KnownRegions, id)
		}
		return nil
	})
	sx("Observe", func(in *Interp, _ *frame, _ *ssa.Function, a []value) value {
		in.res.Obs = append(in.res.Obs, strArg(a[0])+"="+in.obsString(a[1]))
		return nil
	})
	sx("Unwind", func(in *Interp, _ *frame, _ *ssa.Function, a []value) value {
		in.unwind = int(a[0].(*Term).Int())
		return nil
	})
	sx("ForkIndex", func(in *Interp, _ *frame, _ *ssa.Function, a []value) value {
		in.forkIndex = a[0].(*Term).IsTrue()
		return nil
	})
	sx("MapOrderAll", func(in *Interp, _ *frame, _ *ssa.Function, a []value) value {
		in.mapOrderAll = true
		return nil
	})
	sx("Concrete", func(in *Interp, _ *frame, _ *ssa.Function, a []value) value {
		t := a[0].(*Term)
		lo, hi := a[1].(*Term).Int(), a[2].(*Term).Int()
		in.assume(ts.And(ts.Cmp(OpSLe, ts.Const(64, uint64(lo)), t), ts.Cmp(OpSLe, t, ts.Const(64, uint64(hi)))))
		return ts.Const(64, uint64(in.concretize(t, lo, hi, "symx.Concrete")))
	})
	sx("Param", func(in *Interp, _ *frame, _ *ssa.Function, a []value) value {
		if v, ok := in.ex.cfg.Params[strArg(a[0])]; ok {
			return ts.Const(64, uint64(v))
		}
		return a[1]
	})
	sx("Stub", func(in *Interp, _ *frame, _ *ssa.Function, a []value) value {
		in.pathStubs[strArg(a[0])] = a[1].(Iface).v
		in.res.UsesStub = true
		return nil
	})
	sx("IsSymbolic", func(in *Interp, _ *frame, _ *ssa.Function, a []value) value { return ts.True })
	// threads
	sx("Go", func(in *Interp, fr *frame, _ *ssa.Function, a []value) value {
		t := in.spawn(fr, a[1], nil, strArg(a[0]))
		return ts.Const(64, uint64(t.id))
	})
	sx("WaitQuiescent", func(in *Interp, _ *frame, _ *ssa.Function, a []value) value {
		in.sch.waitQuiescent()
		return nil
	})
	sx("Done", func(in *Interp, _ *frame, _ *ssa.Function, a []value) value {
		return ts.Bool(in.sch.threads[a[0].(*Term).Int()].done)
	})
	sx("Blocked", func(in *Interp, _ *frame, _ *ssa.Function, a []value) value {
		t := in.sch.threads[a[0].(*Term).Int()]
		return ts.Bool(!t.done && t.pending != nil && !in.sch.opEnabled(t))
	})
	sx("MustFinish", func(in *Interp, _ *frame, _ *ssa.Function, a []value) value {
		t := in.sch.threads[a[0].(*Term).Int()]
		in.res.Asserts++
		if !t.done {
			k := "running"
			if t.pending != nil {
				k = t.pending.kind
			}
			in.violation("blocked", strArg(a[1])+": thread "+t.name+" still blocked on "+k, in.currentModel())
		} else {
			in.res.Discharged++
		}
		return nil
	})
	// ghost counters: instantaneous, no scheduling point, not subject to the race monitor
	sx("GhostAdd", func(in *Interp, _ *frame, _ *ssa.Function, a []value) value {
		p := a[0].(Ptr)
		nv := ts.Bin(OpAdd, (*p.p).(*Term), a[1].(*Term))
		*p.p = nv
		return nv
	})
	sx("GhostLoad", func(in *Interp, _ *frame, _ *ssa.Function, a []value) value {
		return *a[0].(Ptr).p
	})
	// YieldOn(p): a scheduling point that declares "the code up to my next scheduling point touches the
	// harness monitor p": transitions on different monitors/sync objects commute (sleep sets)
	sx("YieldOn", func(in *Interp, _ *frame, _ *ssa.Function, a []value) value {
		var key any
		switch v := a[0].(Iface).v.(type) {
		case Ptr:
			key = v.p
		default:
			key = nil
		}
		in.sch.syncPoint(&SyncOp{kind: "symx.YieldOn", obj: key, enabled: func() bool { return true }, completed: -1})
		return nil
	})
	sx("OthersDone", func(in *Interp, _ *frame, _ *ssa.Function, a []value) value {
		for _, t := range in.sch.threads {
			if t != in.sch.cur && !t.done {
				return ts.False
			}
		}
		return ts.True
	})
	sx("Yield", func(in *Interp, _ *frame, _ *ssa.Function, a []value) value {
		in.sch.yield("symx.Yield")
		return nil
	})
	sx("MutexHeld", func(in *Interp, _ *frame, _ *ssa.Function, a []value) value {
		return ts.Bool(in.sch.mutex(a[0].(Ptr)).locked)
	})
	sx("RWMutexState", func(in *Interp, _ *frame, _ *ssa.Function, a []value) value {
		m := in.sch.mutex(a[0].(Ptr))
		return Tuple{ts.Bool(m.locked), ts.Const(64, uint64(m.readers))}
	})
	sx("NewError", func(in *Interp, _ *frame, _ *ssa.Function, a []value) value {
		return in.newError(a[0].(Str))
	})

	// ---------------- sync
	E["(*sync.Mutex).Lock"] = func(in *Interp, _ *frame, _ *ssa.Function, a []value) value { in.sch.mutexLock(a[0].(Ptr)); return nil }
	E["(*sync.Mutex).Unlock"] = func(in *Interp, _ *frame, _ *ssa.Function, a []value) value { in.sch.mutexUnlock(a[0].(Ptr)); return nil }
	E["(*sync.Mutex).TryLock"] = func(in *Interp, _ *frame, _ *ssa.Function, a []value) value {
		return ts.Bool(in.sch.mutexTryLock(a[0].(Ptr)))
	}
	E["(*sync.RWMutex).Lock"] = func(in *Interp, _ *frame, _ *ssa.Function, a []value) value { in.sch.rwLock(a[0].(Ptr)); return nil }
	E["(*sync.RWMutex).Unlock"] = func(in *Interp, _ *frame, _ *ssa.Function, a []value) value { in.sch.rwUnlock(a[0].(Ptr)); return nil }
	E["(*sync.RWMutex).RLock"] = func(in *Interp, _ *frame, _ *ssa.Function, a []value) value { in.sch.rwRLock(a[0].(Ptr)); return nil }
	E["(*sync.RWMutex).RUnlock"] = func(in *Interp, _ *frame, _ *ssa.Function, a []value) value { in.sch.rwRUnlock(a[0].(Ptr)); return nil }
	E["(*sync.RWMutex).TryLock"] = func(in *Interp, _ *frame, _ *ssa.Function, a []value) value {
		return ts.Bool(in.sch.rwTryLock(a[0].(Ptr)))
	}
	E["(*sync.RWMutex).TryRLock"] = func(in *Interp, _ *frame, _ *ssa.Function, a []value) value {
		return ts.Bool(in.sch.rwTryRLock(a[0].(Ptr)))
	}
	E["(*sync.Pool).Put"] = func(in *Interp, _ *frame, _ *ssa.Function, a []value) value {
		if x := a[1].(Iface); x.t != nil {
			in.sch.poolPut(a[0].(Ptr), x)
		}
		return nil
	}
	E["(*sync.Pool).Get"] = func(in *Interp, fr *frame, f *ssa.Function, a []value) value {
		if x, ok := in.sch.poolGet(a[0].(Ptr)); ok {
			return x
		}
		// New is the last field of sync.Pool
		pool := (*a[0].(Ptr).p).(Struct)
		if nf, ok := pool[len(pool)-1].(*Closure); ok && nf != nil {
			return in.callValue(fr, nf, nil, 0)
		}
		return Iface{}
	}
	E["(*sync.Cond).Wait"] = func(in *Interp, fr *frame, _ *ssa.Function, a []value) value { in.condWait(fr, a[0].(Ptr)); return nil }
	E["(*sync.Cond).Signal"] = func(in *Interp, _ *frame, _ *ssa.Function, a []value) value { in.condSignal(a[0].(Ptr), false); return nil }
	E["(*sync.Cond).Broadcast"] = func(in *Interp, _ *frame, _ *ssa.Function, a []value) value { in.condSignal(a[0].(Ptr), true); return nil }
	E["(*sync.WaitGroup).Add"] = func(in *Interp, _ *frame, _ *ssa.Function, a []value) value { in.wgAdd(a[0].(Ptr), a[1].(*Term)); return nil }
	E["(*sync.WaitGroup).Done"] = func(in *Interp, _ *frame, _ *ssa.Function, a []value) value {
		in.wgAdd(a[0].(Ptr), ts.Const(64, ^uint64(0)))
		return nil
	}
	E["(*sync.WaitGroup).Wait"] = func(in *Interp, _ *frame, _ *ssa.Function, a []value) value { in.wgWait(a[0].(Ptr)); return nil }
	E["(*sync.noCopy).Lock"] = func(in *Interp, _ *frame, _ *ssa.Function, a []value) value { return nil }
	E["(*sync.copyChecker).check"] = func(in *Interp, _ *frame, _ *ssa.Function, a []value) value { return nil }

	// ---------------- sync/atomic
	for _, ty := range []string{"Int32", "Int64", "Uint32", "Uint64", "Uintptr", "Pointer"} {
		ty := ty
		E["sync/atomic.Load"+ty] = func(in *Interp, fr *frame, _ *ssa.Function, a []value) value {
			p := a[0].(Ptr)
			in.sch.atomicPoint(p.p)
			return in.atomicLoad(p)
		}
		E["sync/atomic.Store"+ty] = func(in *Interp, fr *frame, _ *ssa.Function, a []value) value {
			p := a[0].(Ptr)
			in.sch.atomicPoint(p.p)
			in.atomicStore(p, a[1])
			return nil
		}
		E["sync/atomic.Swap"+ty] = func(in *Interp, fr *frame, _ *ssa.Function, a []value) value {
			p := a[0].(Ptr)
			in.sch.atomicPoint(p.p)
			old := in.atomicLoad(p)
			in.atomicStore(p, a[1])
			return old
		}
		E["sync/atomic.CompareAndSwap"+ty] = func(in *Interp, fr *frame, f *ssa.Function, a []value) value {
			p := a[0].(Ptr)
			in.sch.atomicPoint(p.p)
			cur := in.atomicLoad(p)
			eq := in.equals(f.Signature.Params().At(1).Type(), cur, a[1])
			if in.branch(eq) {
				in.atomicStore(p, a[2])
				return ts.True
			}
			return ts.False
		}
		if ty != "Pointer" {
			E["sync/atomic.Add"+ty] = func(in *Interp, fr *frame, _ *ssa.Function, a []value) value {
				p := a[0].(Ptr)
				in.sch.atomicPoint(p.p)
				nv := ts.Bin(OpAdd, in.atomicLoad(p).(*Term), a[1].(*Term))
				in.atomicStore(p, nv)
				return nv
			}
			E["sync/atomic.And"+ty] = func(in *Interp, fr *frame, _ *ssa.Function, a []value) value {
				p := a[0].(Ptr)
				in.sch.atomicPoint(p.p)
				old := in.atomicLoad(p).(*Term)
				in.atomicStore(p, ts.Bin(OpBAnd, old, a[1].(*Term)))
				return old
			}
			E["sync/atomic.Or"+ty] = func(in *Interp, fr *frame, _ *ssa.Function, a []value) value {
				p := a[0].(Ptr)
				in.sch.atomicPoint(p.p)
				old := in.atomicLoad(p).(*Term)
				in.atomicStore(p, ts.Bin(OpBOr, old, a[1].(*Term)))
				return old
			}
		}
	}
	// atomic.Value: keep the stored interface in the first field slot
	E["(*sync/atomic.Value).Load"] = func(in *Interp, fr *frame, _ *ssa.Function, a []value) value {
		p := a[0].(Ptr)
		in.sch.atomicPoint(p.p)
		return (*p.p).(Struct)[0]
	}
	E["(*sync/atomic.Value).Store"] = func(in *Interp, fr *frame, _ *ssa.Function, a []value) value {
		p := a[0].(Ptr)
		in.sch.atomicPoint(p.p)
		if a[1].(Iface).t == nil {
			in.goPanic(Iface{t: types.Typ[types.String], v: mkStr(ts, "sync/atomic: store of nil value into Value")})
		}
		(*p.p).(Struct)[0] = a[1]
		return nil
	}
	E["(*sync/atomic.Value).Swap"] = func(in *Interp, fr *frame, _ *ssa.Function, a []value) value {
		p := a[0].(Ptr)
		in.sch.atomicPoint(p.p)
		old := (*p.p).(Struct)[0]
		(*p.p).(Struct)[0] = a[1]
		return old
	}

	// ---------------- runtime / time
	E["time.Sleep"] = func(in *Interp, _ *frame, _ *ssa.Function, a []value) value { in.sch.yield("time.Sleep"); return nil }
	E["runtime.Gosched"] = func(in *Interp, _ *frame, _ *ssa.Function, a []value) value { in.sch.yield("Gosched"); return nil }
	E["runtime.KeepAlive"] = func(in *Interp, _ *frame, _ *ssa.Function, a []value) value { return nil }
	E["runtime.SetFinalizer"] = func(in *Interp, _ *frame, _ *ssa.Function, a []value) value { return nil }
	E["time.Now"] = func(in *Interp, _ *frame, f *ssa.Function, a []value) value {
		// wall clock: symbolic seconds since the Unix epoch in [0, 2^36), symbolic nanoseconds
		sec := in.newInput("time.Now.sec", 64, "int64")
		ns := in.newInput("time.Now.nsec", 64, "int64")
		in.assume(ts.And(ts.Cmp(OpULt, sec, ts.Const(64, 1<<36)), ts.Cmp(OpULt, ns, ts.Const(64, 1000000000))))
		// Time{wall: nsec, ext: sec + unixToInternal, loc: nil}
		const unixToInternal = (1969*365 + 1969/4 - 1969/100 + 1969/400) * 86400
		return Struct{ns, ts.Bin(OpAdd, sec, ts.Const(64, uint64(unixToInternal))), Ptr{}}
	}

	// ---------------- bytealg
	idxByte := func(in *Interp, b []*Term, c *Term) value {
		for i, x := range b {
			if in.branch(ts.Eq(x, c)) {
				return ts.Const(64, uint64(i))
			}
		}
		return ts.Const(64, ^uint64(0))
	}
	E["internal/bytealg.IndexByte"] = func(in *Interp, _ *frame, _ *ssa.Function, a []value) value {
		return idxByte(in, sliceBytes(a[0].(Slice)), a[1].(*Term))
	}
	E["internal/bytealg.IndexByteString"] = func(in *Interp, _ *frame, _ *ssa.Function, a []value) value {
		return idxByte(in, a[0].(Str).b, a[1].(*Term))
	}
	E["internal/bytealg.CountString"] = func(in *Interp, _ *frame, _ *ssa.Function, a []value) value {
		n := 0
		for _, x := range a[0].(Str).b {
			if in.branch(ts.Eq(x, a[1].(*Term))) {
				n++
			}
		}
		return ts.Const(64, uint64(n))
	}
	E["internal/bytealg.Count"] = func(in *Interp, _ *frame, _ *ssa.Function, a []value) value {
		n := 0
		for _, x := range sliceBytes(a[0].(Slice)) {
			if in.branch(ts.Eq(x, a[1].(*Term))) {
				n++
			}
		}
		return ts.Const(64, uint64(n))
	}
	index := func(in *Interp, hay, needle []*Term) value {
		for i := 0; i+len(needle) <= len(hay); i++ {
			eq := ts.True
			for j := range needle {
				eq = ts.And(eq, ts.Eq(hay[i+j], needle[j]))
			}
			if in.branch(eq) {
				return ts.Const(64, uint64(i))
			}
		}
		return ts.Const(64, ^uint64(0))
	}
	E["internal/bytealg.IndexString"] = func(in *Interp, _ *frame, _ *ssa.Function, a []value) value {
		return index(in, a[0].(Str).b, a[1].(Str).b)
	}
	E["internal/bytealg.Index"] = func(in *Interp, _ *frame, _ *ssa.Function, a []value) value {
		return index(in, sliceBytes(a[0].(Slice)), sliceBytes(a[1].(Slice)))
	}
	E["strings.Index"] = func(in *Interp, _ *frame, _ *ssa.Function, a []value) value {
		return index(in, a[0].(Str).b, a[1].(Str).b)
	}
	E["strings.IndexByte"] = func(in *Interp, _ *frame, _ *ssa.Function, a []value) value {
		return idxByte(in, a[0].(Str).b, a[1].(*Term))
	}
	E["bytes.IndexByte"] = func(in *Interp, _ *frame, _ *ssa.Function, a []value) value {
		return idxByte(in, sliceBytes(a[0].(Slice)), a[1].(*Term))
	}
	E["internal/bytealg.MakeNoZero"] = func(in *Interp, _ *frame, _ *ssa.Function, a []value) value {
		n := in.concretize(a[0].(*Term), 0, int64(in.ex.cfg.MaxAlloc), "MakeNoZero")
		s := make([]value, n)
		for i := range s {
			s[i] = ts.Const(8, 0)
		}
		return Slice{a: s}
	}
	E["internal/bytealg.Compare"] = func(in *Interp, _ *frame, _ *ssa.Function, a []value) value {
		x, y := Str{sliceBytes(a[0].(Slice))}, Str{sliceBytes(a[1].(Slice))}
		if in.branch(in.equals(types.Typ[types.String], x, y)) {
			return ts.Const(64, 0)
		}
		if in.branch(in.strLess(x, y, false)) {
			return ts.Const(64, ^uint64(0))
		}
		return ts.Const(64, 1)
	}
	E["internal/bytealg.Equal"] = func(in *Interp, _ *frame, _ *ssa.Function, a []value) value {
		return in.equals(types.Typ[types.String], Str{sliceBytes(a[0].(Slice))}, Str{sliceBytes(a[1].(Slice))})
	}
	E["bytes.Equal"] = E["internal/bytealg.Equal"]

	// ---------------- strings.Builder (unsafe inside)
	E["(*strings.Builder).String"] = func(in *Interp, _ *frame, _ *ssa.Function, a []value) value {
		st := (*a[0].(Ptr).p).(Struct)
		return Str{sliceBytes(st[1].(Slice))}
	}
	E["(*strings.Builder).copyCheck"] = func(in *Interp, _ *frame, _ *ssa.Function, a []value) value { return nil }
	E["strings.Clone"] = func(in *Interp, _ *frame, _ *ssa.Function, a []value) value { return a[0] }
	E["internal/stringslite.Clone"] = E["strings.Clone"]
	E["strconv.cloneString"] = E["strings.Clone"]

	// ---------------- math/bits
	E["math/bits.TrailingZeros64"] = func(in *Interp, _ *frame, _ *ssa.Function, a []value) value {
		x := a[0].(*Term)
		r := ts.Const(64, 64)
		for i := 63; i >= 0; i-- {
			bit := ts.Ne(ts.Bin(OpBAnd, x, ts.Const(64, uint64(1)<<uint(i))), ts.Const(64, 0))
			r = ts.Ite(bit, ts.Const(64, uint64(i)), r)
		}
		return in.concretizeByModel(r, "math/bits.TrailingZeros64")
	}
	E["math/bits.TrailingZeros32"] = func(in *Interp, _ *frame, _ *ssa.Function, a []value) value {
		x := a[0].(*Term)
		r := ts.Const(64, 32)
		for i := 31; i >= 0; i-- {
			bit := ts.Ne(ts.Bin(OpBAnd, x, ts.Const(32, uint64(1)<<uint(i))), ts.Const(32, 0))
			r = ts.Ite(bit, ts.Const(64, uint64(i)), r)
		}
		return in.concretizeByModel(r, "math/bits.TrailingZeros32")
	}
	E["math/bits.Len64"] = func(in *Interp, _ *frame, _ *ssa.Function, a []value) value {
		x := a[0].(*Term)
		r := ts.Const(64, 0)
		for i := 0; i < 64; i++ {
			bit := ts.Ne(ts.Bin(OpBAnd, x, ts.Const(64, uint64(1)<<uint(i))), ts.Const(64, 0))
			r = ts.Ite(bit, ts.Const(64, uint64(i+1)), r)
		}
		return in.concretizeByModel(r, "math/bits.Len64")
	}
	E["math/bits.Len32"] = func(in *Interp, _ *frame, _ *ssa.Function, a []value) value {
		x := a[0].(*Term)
		r := ts.Const(64, 0)
		for i := 0; i < 32; i++ {
			bit := ts.Ne(ts.Bin(OpBAnd, x, ts.Const(32, uint64(1)<<uint(i))), ts.Const(32, 0))
			r = ts.Ite(bit, ts.Const(64, uint64(i+1)), r)
		}
		return in.concretizeByModel(r, "math/bits.Len32")
	}
	E["math.Float64bits"] = func(in *Interp, _ *frame, _ *ssa.Function, a []value) value { return a[0] }
	E["math.Float64frombits"] = func(in *Interp, _ *frame, _ *ssa.Function, a []value) value { return a[0] }
	E["math.Float32bits"] = func(in *Interp, _ *frame, _ *ssa.Function, a []value) value { return a[0] }
	E["math.Float32frombits"] = func(in *Interp, _ *frame, _ *ssa.Function, a []value) value { return a[0] }

	// ---------------- errors / fmt
	E["errors.Is"] = func(in *Interp, fr *frame, _ *ssa.Function, a []value) value {
		return ts.Bool(in.errorsIs(fr, a[0].(Iface), a[1].(Iface)))
	}
	E["fmt.Errorf"] = func(in *Interp, fr *frame, _ *ssa.Function, a []value) value {
		msg, wrapped := in.sprintf(fr, a[0].(Str), a[1].(Slice))
		if wrapped.t != nil {
			if wt := in.ex.lookupType("fmt", "wrapError"); wt != nil {
				p := new(value)
				*p = Struct{msg, wrapped}
				return Iface{t: types.NewPointer(wt), v: Ptr{p: p}}
			}
		}
		return in.newError(msg)
	}
	// sort.Slice & co: reflection only supplies length and an element swapper; the sorting itself is
	// package sort's own pdqsort / insertion / stable code, executed from source
	sliceSort := func(algo string) func(in *Interp, fr *frame, _ *ssa.Function, a []value) value {
		return func(in *Interp, fr *frame, _ *ssa.Function, a []value) value {
			x, ok := a[0].(Iface).v.(Slice)
			if !ok {
				in.unsupported("sort.Slice of a non-slice")
			}
			n := len(x.a)
			swap := &Closure{native: func(in *Interp, _ *frame, args []value) value {
				i := in.concretize(args[0].(*Term), 0, int64(n)-1, "sort swap index")
				j := in.concretize(args[1].(*Term), 0, int64(n)-1, "sort swap index")
				in.sch.noteWrite(&x.a[i])
				in.sch.noteWrite(&x.a[j])
				x.a[i], x.a[j] = x.a[j], x.a[i]
				return nil
			}}
			ls := Struct{a[1], swap}
			N := ts.Const(64, uint64(n))
			switch algo {
			case "pdq":
				f := in.ex.lookupFunc("sort", "pdqsort_func")
				in.callFn(fr, f, []value{ls, ts.Const(64, 0), N, ts.Const(64, uint64(bits.Len(uint(n))))}, nil)
			case "stable":
				f := in.ex.lookupFunc("sort", "stable_func")
				in.callFn(fr, f, []value{ls, N}, nil)
			case "sorted":
				for i := n - 1; i > 0; i-- {
					r := in.callValue(fr, a[1], []value{ts.Const(64, uint64(i)), ts.Const(64, uint64(i-1))}, 0).(*Term)
					if in.branch(r) {
						return ts.False
					}
				}
				return ts.True
			}
			return nil
		}
	}
	E["sort.Slice"] = sliceSort("pdq")
	E["sort.SliceStable"] = sliceSort("stable")
	E["sort.SliceIsSorted"] = sliceSort("sorted")
	// context.WithValue checks key comparability through reflection; the rest is an ordinary struct
	E["context.WithValue"] = func(in *Interp, fr *frame, f *ssa.Function, a []value) value {
		vt := in.ex.lookupType("context", "valueCtx")
		if vt == nil {
			in.unsupported("context.valueCtx not loaded")
		}
		if a[0].(Iface).t == nil {
			in.goPanic(in.newError(mkStr(in.ts, "cannot create context from nil parent")))
		}
		if a[1].(Iface).t == nil {
			in.goPanic(in.newError(mkStr(in.ts, "nil key")))
		}
		p := new(value)
		*p = Struct{a[0], a[1], a[2]}
		return Iface{t: types.NewPointer(vt), v: Ptr{p: p}}
	}
	// errors.As: walk the chain like errors.Is does; the target is a pointer to a variable of error or concrete type
	E["errors.As"] = func(in *Interp, fr *frame, _ *ssa.Function, a []value) value {
		return ts.Bool(in.errorsAs(fr, a[0].(Iface), a[1].(Iface)))
	}
	// only ever formatted into error messages by the code under test: an opaque nil Type
	E["reflect.TypeOf"] = func(in *Interp, _ *frame, f *ssa.Function, a []value) value { return in.zero(f.Signature.Results()) }
	E["fmt.Sprintf"] = func(in *Interp, fr *frame, _ *ssa.Function, a []value) value {
		s, _ := in.sprintf(fr, a[0].(Str), a[1].(Slice))
		return s
	}
	E["fmt.Sprint"] = func(in *Interp, fr *frame, _ *ssa.Function, a []value) value {
		var out []*Term
		isStr := func(x Iface) bool {
			if x.t == nil {
				return false
			}
			b, ok := under(x.t).(*types.Basic)
			return ok && b.Info()&types.IsString != 0
		}
		args := a[0].(Slice).a
		for i, x := range args {
			// Sprint adds a space between operands when neither is a string
			if i > 0 && !isStr(x.(Iface)) && !isStr(args[i-1].(Iface)) {
				out = append(out, ts.Const(8, ' '))
			}
			out = append(out, in.fmtValue(fr, x.(Iface), 'v', "").b...)
		}
		return Str{out}
	}
	for _, n := range []string{"fmt.Println", "fmt.Printf", "fmt.Print", "fmt.Fprintf", "fmt.Fprintln", "fmt.Fprint", "log.Printf", "log.Println", "log.Print"} {
		E[n] = func(in *Interp, _ *frame, f *ssa.Function, a []value) value { return in.zero(f.Signature.Results()) }
	}
	E["google.golang.org/grpc/status.Error"] = func(in *Interp, fr *frame, _ *ssa.Function, a []value) value {
		return in.newError(a[1].(Str))
	}
	E["google.golang.org/grpc/status.Errorf"] = func(in *Interp, fr *frame, _ *ssa.Function, a []value) value {
		msg, _ := in.sprintf(fr, a[1].(Str), a[2].(Slice))
		return in.newError(msg)
	}
	xx := func(in *Interp, b []*Term) value {
		for _, e := range in.xxMemo {
			if len(e.key) != len(b) {
				continue
			}
			eq := ts.True
			for i := range b {
				eq = ts.And(eq, ts.Eq(e.key[i], b[i]))
			}
			if in.branch(eq) {
				return e.val
			}
		}
		v := in.newInput("xxhash", 64, "uint64")
		in.res.UsesUninterp = true
		in.xxMemo = append(in.xxMemo, xxEntry{append([]*Term(nil), b...), v})
		return v
	}
	E["github.com/cespare/xxhash/v2.Sum64"] = func(in *Interp, _ *frame, _ *ssa.Function, a []value) value {
		return xx(in, sliceBytes(a[0].(Slice)))
	}
	E["github.com/cespare/xxhash/v2.Sum64String"] = func(in *Interp, _ *frame, _ *ssa.Function, a []value) value {
		return xx(in, a[0].(Str).b)
	}
	E["github.com/redis/go-redis/v9/internal/util.StringToBytes"] = func(in *Interp, _ *frame, _ *ssa.Function, a []value) value {
		b := a[0].(Str).b
		out := make([]value, len(b))
		for i, t := range b {
			out[i] = t
		}
		return Slice{a: out}
	}
	E["github.com/redis/go-redis/v9/internal/util.BytesToString"] = func(in *Interp, _ *frame, _ *ssa.Function, a []value) value {
		return Str{sliceBytes(a[0].(Slice))}
	}
	E["os.Getenv"] = func(in *Interp, _ *frame, _ *ssa.Function, a []value) value { return Str{} }
}

func sliceBytes(s Slice) []*Term {
	b := make([]*Term, len(s.a))
	for i, v := range s.a {
		b[i] = v.(*Term)
	}
	return b
}

func (in *Interp) atomicLoad(p Ptr) value {
	if p.IsNil() {
		in.rtPanic("invalid memory address or nil pointer dereference")
	}
	return *p.p
}
func (in *Interp) atomicStore(p Ptr, v value) {
	if p.IsNil() {
		in.rtPanic("invalid memory address or nil pointer dereference")
	}
	*p.p = v
}

// catchPanic runs closure f and returns the program panic that escaped it, if any.
func (in *Interp) catchPanic(fr *frame, f value) (res *goPanic) {
	defer func() {
		if r := recover(); r != nil {
			if gp, ok := r.(*goPanic); ok {
				res = gp
				return
			}
			panic(r)
		}
	}()
	in.callValue(fr, f, nil, 0)
	return nil
}

func (in *Interp) newError(msg Str) value {
	et := in.ex.lookupType("errors", "errorString")
	p := new(value)
	*p = Struct{msg}
	return Iface{t: types.NewPointer(et), v: Ptr{p: p}}
}

func (in *Interp) methodOf(t types.Type, name string) *ssa.Function {
	ms := in.prog.MethodSets.MethodSet(t)
	for i := 0; i < ms.Len(); i++ {
		sel := ms.At(i)
		if sel.Obj().Name() == name {
			return in.prog.MethodValue(sel)
		}
	}
	return nil
}

func (in *Interp) errorsIs(fr *frame, err, target Iface) bool {
	for depth := 0; depth < 16; depth++ {
		if err.t == nil {
			return target.t == nil
		}
		if target.t != nil && types.Identical(err.t, target.t) && types.Comparable(err.t) {
			if in.branch(in.equals(err.t, err.v, target.v)) {
				return true
			}
		}
		if m := in.methodOf(err.t, "Is"); m != nil && m.Signature.Params().Len() == 1 {
			if in.branch(in.callFn(fr, m, []value{err.v, target}, nil).(*Term)) {
				return true
			}
		}
		m := in.methodOf(err.t, "Unwrap")
		if m == nil || m.Signature.Results().Len() != 1 {
			return false
		}
		switch nx := in.callFn(fr, m, []value{err.v}, nil).(type) {
		case Iface:
			err = nx
		case Slice: // Unwrap() []error (errors.Join, fmt.Errorf with several %w)
			for _, e := range nx.a {
				if in.errorsIs(fr, e.(Iface), target) {
					return true
				}
			}
			return false
		default:
			return false
		}
	}
	return false
}

// errorsAs: errors.As without reflection. target is a non-nil pointer to a variable whose type is
// an interface type or a concrete type implementing error.
func (in *Interp) errorsAs(fr *frame, err, target Iface) bool {
	pt, ok := target.t.(*types.Pointer)
	if !ok || target.v.(Ptr).IsNil() {
		in.goPanic(in.newError(mkStr(in.ts, "errors: target must be a non-nil pointer")))
	}
	tt := pt.Elem()
	for depth := 0; depth < 16; depth++ {
		if err.t == nil {
			return false
		}
		if it, isI := tt.Underlying().(*types.Interface); isI {
			if types.Implements(err.t, it) {
				in.store(fr, target.v.(Ptr), err)
				return true
			}
		} else if types.Identical(err.t, tt) {
			in.store(fr, target.v.(Ptr), err.v)
			return true
		}
		if m := in.methodOf(err.t, "As"); m != nil && m.Signature.Params().Len() == 1 {
			if in.branch(in.callFn(fr, m, []value{err.v, target}, nil).(*Term)) {
				return true
			}
		}
		m := in.methodOf(err.t, "Unwrap")
		if m == nil || m.Signature.Results().Len() != 1 {
			return false
		}
		switch nx := in.callFn(fr, m, []value{err.v}, nil).(type) {
		case Iface:
			err = nx
		case Slice:
			for _, e := range nx.a {
				if in.errorsAs(fr, e.(Iface), target) {
					return true
				}
			}
			return false
		default:
			return false
		}
	}
	return false
}

// decimal formatting of a (possibly symbolic) integer: concrete only, otherwise
// the digits are obtained by running strconv's own code through the interpreter.
func (in *Interp) fmtInt(fr *frame, t *Term, signed bool) Str {
	if t.IsConst() {
		if signed {
			return mkStr(in.ts, strconv.FormatInt(t.Int(), 10))
		}
		return mkStr(in.ts, strconv.FormatUint(t.Uint(), 10))
	}
	var fn *ssa.Function
	var arg *Term
	if signed {
		fn = in.ex.lookupFunc("strconv", "FormatInt")
		arg = in.ts.SExt(t, 64)
	} else {
		fn = in.ex.lookupFunc("strconv", "FormatUint")
		arg = in.ts.ZExt(t, 64)
	}
	if fn == nil {
		in.unsupported("formatting a symbolic integer without strconv loaded")
	}
	return in.callFn(fr, fn, []value{arg, in.ts.Const(64, 10)}, nil).(Str)
}

func (in *Interp) fmtValue(fr *frame, x Iface, verb byte, flags string) Str {
	ts := in.ts
	if x.t == nil {
		return mkStr(ts, "<nil>")
	}
	// error / Stringer
	if verb == 'v' || verb == 's' {
		if m := in.methodOf(x.t, "Error"); m != nil && m.Signature.Params().Len() == 0 {
			return in.callFn(fr, m, []value{x.v}, nil).(Str)
		}
		if m := in.methodOf(x.t, "String"); m != nil && m.Signature.Params().Len() == 0 && m.Signature.Results().Len() == 1 {
			if s, ok := in.callFn(fr, m, []value{x.v}, nil).(Str); ok {
				return s
			}
		}
	}
	switch u := under(x.t).(type) {
	case *types.Basic:
		switch {
		case u.Info()&types.IsString != 0:
			return x.v.(Str)
		case u.Info()&types.IsInteger != 0:
			t := x.v.(*Term)
			var s Str
			switch verb {
			case 'x':
				if !t.IsConst() {
					in.unsupported("%x of symbolic integer")
				}
				s = mkStr(ts, strconv.FormatUint(t.Uint(), 16))
			case 'c':
				s = Str{in.encodeRune(ts.SExt(t, 64))}
			default:
				s = in.fmtInt(fr, t, isSigned(u))
			}
			// width / zero padding
			if flags != "" {
				zero := strings.HasPrefix(flags, "0")
				wd, _ := strconv.Atoi(strings.TrimLeft(flags, "0"))
				neg := len(s.b) > 0 && s.b[0].IsConst() && s.b[0].val == '-'
				for len(s.b) < wd {
					pad := ts.Const(8, ' ')
					if zero {
						pad = ts.Const(8, '0')
					}
					if neg && zero {
						s = Str{append([]*Term{s.b[0], pad}, s.b[1:]...)}
					} else {
						s = Str{append([]*Term{pad}, s.b...)}
					}
				}
			}
			return s
		case u.Info()&types.IsBoolean != 0:
			t := x.v.(*Term)
			if in.branch(t) {
				return mkStr(ts, "true")
			}
			return mkStr(ts, "false")
		}
	case *types.Slice:
		if b, ok := under(u.Elem()).(*types.Basic); ok && b.Kind() == types.Uint8 && verb == 's' {
			return Str{sliceBytes(x.v.(Slice))}
		}
	}
	return mkStr(ts, "<"+x.t.String()+">")
}

// sprintf models %s %d %v %x %c %q(opaque) %w with optional 0N width.
func (in *Interp) sprintf(fr *frame, format Str, args Slice) (Str, Iface) {
	f, ok := format.Concrete()
	if !ok {
		in.unsupported("symbolic format string")
	}
	var out []*Term
	var wrapped Iface
	ai := 0
	for i := 0; i < len(f); i++ {
		c := f[i]
		if c != '%' {
			out = append(out, in.ts.Const(8, uint64(c)))
			continue
		}
		i++
		if i >= len(f) {
			break
		}
		if f[i] == '%' {
			out = append(out, in.ts.Const(8, '%'))
			continue
		}
		j := i
		for j < len(f) && (f[j] >= '0' && f[j] <= '9' || f[j] == '+' || f[j] == '-' || f[j] == '#' || f[j] == ' ' || f[j] == '.') {
			j++
		}
		flags := f[i:j]
		verb := f[j]
		i = j
		if ai >= len(args.a) {
			out = append(out, mkStr(in.ts, "%!"+string(verb)+"(MISSING)").b...)
			continue
		}
		a := args.a[ai].(Iface)
		ai++
		if verb == 'w' {
			wrapped = a
			verb = 'v'
		}
		if strings.ContainsAny(flags, "+-# .") {
			out = append(out, mkStr(in.ts, "<fmt:"+flags+string(verb)+">").b...)
			continue
		}
		out = append(out, in.fmtValue(fr, a, verb, flags).b...)
	}
	return Str{out}, wrapped
}

func (in *Interp) obsString(v value) string {
	switch v := v.(type) {
	case Iface:
		if v.t == nil {
			return "<nil>"
		}
		return in.obsString(v.v)
	case *Term:
		if v.IsConst() {
			if v.w == 0 {
				return strconv.FormatBool(v.val != 0)
			}
			return strconv.FormatUint(v.val, 10)
		}
		return "sym"
	case Str:
		c, ok := v.Concrete()
		if ok {
			return strconv.Quote(c)
		}
		return "sym"
	case Slice:
		parts := make([]string, len(v.a))
		for i, x := range v.a {
			parts[i] = in.obsString(x)
		}
		return "[" + strings.Join(parts, " ") + "]"
	}
	return fmt.Sprintf("%T", v)
}

var noopPkgs = []string{
	"go.uber.org/zap", "github.com/pinealctx/neptune/ulog", "log", "gopkg.in/natefinch/lumberjack.v2",
}

// externByPkg: whole packages whose functions are modelled as no-ops returning zero values.
func (in *Interp) externByPkg(fn *ssa.Function) externFn {
	if fn.Pkg == nil {
		// methods of instantiated generics etc. have Pkg == nil; use the object's package
		if fn.Object() == nil || fn.Object().Pkg() == nil {
			return nil
		}
	}
	var path string
	if fn.Pkg != nil {
		path = fn.Pkg.Pkg.Path()
	} else {
		path = fn.Object().Pkg().Path()
	}
	for _, p := range noopPkgs {
		if path == p || strings.HasPrefix(path, p+"/") {
			in.ex.noteStub(path + ".*")
			return func(in *Interp, _ *frame, f *ssa.Function, a []value) value {
				return in.zero(f.Signature.Results())
			}
		}
	}
	for _, p := range in.ex.cfg.NoopPkgs {
		if path == p || strings.HasPrefix(path, p+"/") {
			in.ex.noteStub(path + ".*")
			return func(in *Interp, _ *frame, f *ssa.Function, a []value) value {
				return in.zero(f.Signature.Results())
			}
		}
	}
	return nil
}

func sortedKeys[V any](m map[string]V) []string {
	ks := make([]string, 0, len(m))
	for k := range m {
		ks = append(ks, k)
	}
	sort.Strings(ks)
	return ks
}
