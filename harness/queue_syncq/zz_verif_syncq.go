package syncq

import (
	symx "github.com/pinealctx/neptune/zzsymx"
)

// C12: SyncQueue history: FIFO, closed queue drops pushes, Pop/TryPop drain before reporting closed.
func VerifH_SyncQHistory() {
	q := NewSyncQueue()
	var model []int
	closed := false
	next := 1
	// optional concrete prefix so that the ring buffer of eapache/queue wraps around and resizes
	for i := 0; i < symx.Param("prefill", 0); i++ {
		q.Push(next)
		model = append(model, next)
		next++
		if i%3 == 2 {
			symx.Assert(q.Pop().(int) == model[0], "prefill pop")
			model = model[1:]
		}
	}
	steps := symx.Param("steps", 4)
	for s := 0; s < steps; s++ {
		switch symx.Concrete(symx.Int("op"), 0, 4) {
		case 0:
			id := next
			next++
			q.Push(id)
			if !closed {
				model = append(model, id)
			}
		case 1:
			var got interface{}
			t := symx.Go("consumer", func() { got = q.Pop() })
			symx.WaitQuiescent()
			switch {
			case len(model) > 0:
				symx.Assert(symx.Done(t) && got.(int) == model[0], "Pop hands out the oldest item (also after close)")
				model = model[1:]
			case closed:
				symx.Assert(symx.Done(t) && got == nil, "Pop on a drained closed queue returns nil")
			default:
				symx.Assert(symx.Blocked(t), "Pop on an open empty queue blocks")
				if symx.Bool("releaseByClose") {
					q.Close()
					closed = true
					symx.WaitQuiescent()
					symx.MustFinish(t, "close releases a blocked consumer")
					symx.Assert(got == nil, "released by close: nil")
				} else {
					id := next
					next++
					q.Push(id)
					symx.WaitQuiescent()
					symx.MustFinish(t, "a push releases a blocked consumer")
					symx.Assert(got.(int) == id, "released consumer gets the pushed item")
				}
			}
		case 2:
			v, ok := q.TryPop()
			switch {
			case len(model) > 0:
				symx.Assert(ok && v.(int) == model[0], "TryPop hands out the oldest item")
				model = model[1:]
			case closed:
				symx.Assert(ok && v == nil, "TryPop on a drained closed queue: nil, true")
			default:
				symx.Assert(!ok && v == nil, "TryPop on an open empty queue: false")
			}
		case 3:
			symx.Assert(q.Len() == len(model), "Len")
		case 4:
			q.Close()
			closed = true
		}
	}
	for len(model) > 0 {
		v, ok := q.TryPop()
		symx.Assert(ok && v.(int) == model[0], "remaining items drain in order")
		model = model[1:]
	}
	symx.Reach("end")
}

// C13: k consumers blocked in Pop; close releases all of them; k pushes release k with distinct items.
func VerifH_SyncQWakeups() {
	q := NewSyncQueue()
	k := symx.Param("consumers", 2)
	got := make([]interface{}, k)
	ts := make([]symx.ThreadID, k)
	for i := 0; i < k; i++ {
		i := i
		ts[i] = symx.Go("consumer", func() { got[i] = q.Pop() })
	}
	symx.WaitQuiescent()
	switch symx.Concrete(symx.Int("scenario"), 0, 2) {
	case 0:
		q.Close()
		symx.WaitQuiescent()
		for i := 0; i < k; i++ {
			symx.MustFinish(ts[i], "close releases every blocked consumer")
			symx.Assert(got[i] == nil, "released by close: nil")
		}
	case 1:
		symx.Go("producerA", func() { q.Push(1) })
		symx.Go("producerB", func() {
			for j := 2; j <= k; j++ {
				q.Push(j)
			}
		})
		symx.WaitQuiescent()
		seen := map[int]bool{}
		for i := 0; i < k; i++ {
			symx.MustFinish(ts[i], "k pushes release k blocked consumers")
			id, _ := got[i].(int)
			symx.Assert(id >= 1 && id <= k && !seen[id], "k distinct items")
			seen[id] = true
		}
	case 2:
		symx.Go("producer", func() { q.Push(1); q.Close() })
		symx.WaitQuiescent()
		n := 0
		for i := 0; i < k; i++ {
			symx.MustFinish(ts[i], "push then close releases every blocked consumer")
			if got[i] != nil {
				symx.Assert(got[i].(int) == 1, "the pushed item")
				n++
			}
		}
		symx.Assert(n == 1, "the item reaches exactly one consumer")
	}
	symx.Reach("end")
}
