package syncq

import (
	symx "github.com/pinealctx/neptune/zzsymx"
)

// C12: SyncQueue history: FIFO, closed queue drops pushes, Pop/TryPop drain before reporting closed.
func VerifH_SyncQHistory() {
	q := NewSyncQueue()
	var model []int
	closed := false
	next := 1
	// optional concrete prefix so that the ring buffer of eapache/queue wraps around and resizes
	for i := 0; i < symx.Param("prefill", 0); i++ {
		q.Push(next)
		model = append(model, next)
		next++
		if i%3 == 2 {
			symx.Assert(q.Pop().(int) == model[0], "prefill pop")
			model = model[1:]
		}
	}
	steps := symx.Param("steps", 4)
	for s := 0; s < steps; s++ {
		switch symx.Concrete(symx.Int("op"), 0, 4) {
		case 0:
			id := next
			next++
			q.Push(id)
			if !closed {
				model = append(model, id)
			}
		case 1:
			var got interface{}
			t := symx.Go("consumer", func() { got = q.Pop() })
			symx.WaitQuiescent()
			switch {
			case len(model) > 0:
				symx.Assert(symx.Done(t) && got.(int) == model[0], "Pop hands out the oldest item (also after close)")
				model = model[1:]
			case closed:
				symx.Assert(symx.Done(t) && got == nil, "Pop on a drained closed queue returns nil")
			default:
				symx.Assert(symx.Blocked(t), "Pop on an open empty queue blocks")
				if symx.Bool("releaseByClose") {
					q.Close()
					closed = true
					symx.WaitQuiescent()
					symx.MustFinish(t, "close releases a blocked consumer")
					symx.Assert(got == nil, "released by close: nil")
				} else {
					id := next
					next++
					q.Push(id)
					symx.WaitQuiescent()
					symx.MustFinish(t, "a push releases a blocked consumer")
					symx.Assert(got.(int) == id, "released consumer gets the pushed item")
				}
			}
		case 2:
			v, ok := q.TryPop()
			switch {
			case len(model) > 0:
				symx.Assert(ok && v.(int) == model[0], "TryPop hands out the oldest item")
				model = model[1:]
			case closed:
				symx.Assert(ok && v == nil, "TryPop on a drained closed queue: nil, true")
			default:
				symx.Assert(!ok && v == nil, "TryPop on an open empty queue: false")
			}
		case 3:
			symx.Assert(q.Len() == len(model), "Len")
		case 4:
			q.Close()
			closed = true
		}
	}
	for len(model) > 0 {
		v, ok := q.TryPop()
		symx.Assert(ok && v.(int) == model[0], "remaining items drain in order")
		model = model[1:]
	}
	symx.Reach("end")
}

// C13: k consumers blocked in Pop; close releases all of them; k pushes release k with distinct items.
func VerifH_SyncQWakeups() {
	q := NewSyncQueue()
	k := symx.Param("consumers", 2)
	got := make([]interface{}, k)
	ts := make([]symx.ThreadID, k)
	for i := 0; i < k; i++ {
		i := i
		ts[i] = symx.Go("consumer", func() { got[i] = q.Pop() })
	}
	symx.WaitQuiescent()
	switch symx.Concrete(symx.Int("scenario"), 0, 4) {
	case 0:
		q.Close()
		symx.WaitQuiescent()
		for i := 0; i < k; i++ {
			symx.MustFinish(ts[i], "close releases every blocked consumer")
			symx.Assert(got[i] == nil, "released by close: nil")
		}
	case 1:
		symx.Go("producerA", func() { q.Push(1) })
		symx.Go("producerB", func() {
			for j := 2; j <= k; j++ {
				q.Push(j)
			}
		})
		symx.WaitQuiescent()
		seen := map[int]bool{}
		for i := 0; i < k; i++ {
			symx.MustFinish(ts[i], "k pushes release k blocked consumers")
			id, _ := got[i].(int)
			symx.Assert(id >= 1 && id <= k && !seen[id], "k distinct items")
			seen[id] = true
		}
	case 2:
		symx.Go("producer", func() { q.Push(1); q.Close() })
		symx.WaitQuiescent()
		n := 0
		for i := 0; i < k; i++ {
			symx.MustFinish(ts[i], "push then close releases every blocked consumer")
			if got[i] != nil {
				symx.Assert(got[i].(int) == 1, "the pushed item")
				n++
			}
		}
		symx.Assert(n == 1, "the item reaches exactly one consumer")
	case 3: // a push wakes a parked consumer while another caller takes the item first (TryPop): nil is handed
		// out only when the queue is closed and drained, so a woken consumer either got the item or keeps
		// waiting, and further pushes release whoever still waits
		var stolen interface{}
		symx.Go("producer", func() { q.Push(1) })
		symx.Go("thief", func() { stolen, _ = q.TryPop() })
		symx.WaitQuiescent()
		n := 0
		if stolen != nil {
			symx.Assert(stolen.(int) == 1, "the item pushed")
			n++
		}
		for i := 0; i < k; i++ {
			if symx.Done(ts[i]) {
				symx.Assert(got[i] != nil && got[i].(int) == 1, "Pop on an open queue returns an item, never nil")
				n++
			}
		}
		symx.Assert(n == 1, "the single item is handed out exactly once")
		for j := 0; j < k; j++ {
			q.Push(10 + j)
		}
		symx.WaitQuiescent()
		for i := 0; i < k; i++ {
			symx.MustFinish(ts[i], "further pushes release the consumers that are still waiting")
			symx.Assert(got[i] != nil, "with an item")
		}
	case 4: // one more consumer enters Pop while the pushes (one per consumer) and, in the other variant, the
		// close happen - nobody has waited for it to park: a push or close that lands anywhere inside Pop
		// is not missed
		var late interface{}
		closing := symx.Bool("closeInsteadOfLastPush")
		tl := symx.Go("lateConsumer", func() { late = q.Pop() })
		symx.Go("producer", func() {
			for j := 0; j < k; j++ {
				q.Push(20 + j)
			}
			if closing {
				q.Close()
			} else {
				q.Push(20 + k)
			}
		})
		symx.WaitQuiescent()
		n := 0
		for i := 0; i < k; i++ {
			symx.MustFinish(ts[i], "every consumer is released by a push or by the close")
			if got[i] != nil {
				n++
			}
		}
		symx.MustFinish(tl, "a consumer that entered Pop while the pushes and the close happened is released too")
		if late != nil {
			n++
		}
		if closing {
			symx.Assert(n == k, "the pushed items are handed out before the close is reported")
		} else {
			symx.Assert(n == k+1, "every consumer gets an item")
		}
	}
	symx.Reach("end")
}
