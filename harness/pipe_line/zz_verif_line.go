package line

import (
	"context"
	"sync"
	"time"

	"github.com/pinealctx/neptune/syncx/pipe"

	symx "github.com/pinealctx/neptune/zzsymx"
)

type verifCtx struct {
	done chan struct{}
	err  error
}

func verifNewCtx() *verifCtx                          { return &verifCtx{done: make(chan struct{})} }
func (c *verifCtx) Deadline() (time.Time, bool)       { return time.Time{}, false }
func (c *verifCtx) Done() <-chan struct{}             { return c.done }
func (c *verifCtx) Err() error                        { return c.err }
func (c *verifCtx) Value(key interface{}) interface{} { return nil }
func (c *verifCtx) cancel()                           { c.err = context.Canceled; close(c.done) }

type verifLaneLog struct {
	running int64
	runs    [4]int
	order   []int
}

// C14/H2 (single line): backlog behind a busy call, Stop and cancellation at symbolic points.
func VerifH_LineProgram() {
	wg := &sync.WaitGroup{}
	l := NewLine(wg, WithQSize(symx.Concrete(symx.Int("qSize"), 0, 2)))
	l.Run()
	log := &verifLaneLog{}
	gate := make(chan struct{})
	call := func(ctx context.Context, req interface{}) (interface{}, error) {
		id := req.(int)
		symx.YieldOn(log)
		n := symx.GhostAdd(&log.running, 1)
		symx.Assert(n == 1, "calls on one lane never overlap in time")
		log.runs[id]++
		log.order = append(log.order, id)
		if id == 0 {
			<-gate // the first call keeps the lane busy until the controller opens the gate
		}
		symx.YieldOn(log)
		symx.GhostAdd(&log.running, -1)
		return id * 10, nil
	}
	ctxA, ctxB := verifNewCtx(), verifNewCtx()
	var rA, rB, rC interface{}
	var eA, eB, eC error
	tA := symx.Go("callerA", func() { rA, eA = l.AsyncCall(ctxA, NewCallCtx(call, 0)) })
	symx.WaitQuiescent() // A accepted and running (parked on the gate)
	tB := symx.Go("callerB", func() { rB, eB = l.AsyncCall(ctxB, NewCallCtx(call, 1)) })
	symx.WaitQuiescent() // B accepted, queued behind A
	cancelB := symx.Bool("cancelB")
	if cancelB {
		ctxB.cancel()
		symx.WaitQuiescent()
		symx.MustFinish(tB, "a caller whose context ended returns")
		symx.Assert(eB == context.Canceled && rB == nil, "with its own context's error")
	}
	stopEarly := symx.Bool("stopBeforeGate")
	if stopEarly {
		l.Stop()
		tC := symx.Go("callerC", func() { rC, eC = l.AsyncCall(verifNewCtx(), NewCallCtx(call, 2)) })
		symx.WaitQuiescent()
		symx.MustFinish(tC, "a call after Stop returns at once")
		symx.Assert(eC == pipe.ErrQueueClosed && rC == nil && log.runs[2] == 0, "after Stop no new call is accepted")
	}
	close(gate)
	symx.WaitQuiescent()
	symx.MustFinish(tA, "the first caller gets its result")
	symx.Assert(eA == nil && rA.(int) == 0, "caller A receives the result of its own call")
	symx.Assert(log.runs[0] == 1, "an accepted call runs once")
	if !cancelB {
		symx.MustFinish(tB, "a call accepted before Stop still completes")
		symx.Assert(eB == nil && rB.(int) == 10, "caller B receives the result of its own call, not another's")
	}
	symx.Assert(log.runs[1] <= 1, "an accepted call runs at most once")
	if log.runs[1] == 1 {
		symx.Assert(len(log.order) == 2 && log.order[0] == 0 && log.order[1] == 1, "calls start in the order they were accepted")
	}
	if !stopEarly {
		l.Stop()
	}
	l.Stop() // idempotent
	tW := symx.Go("waiter", func() { wg.Wait() })
	symx.WaitQuiescent()
	symx.MustFinish(tW, "after Stop the lane goroutine terminates")
	symx.Reach("end")
}

// C14/H2c (single line): a call made with a context that has already ended, on an idle lane or behind a
// busy call: the caller gets its own context's error and no result, or the result of its own call.
func VerifH_LineDeadContext() {
	wg := &sync.WaitGroup{}
	l := NewLine(wg, WithQSize(symx.Concrete(symx.Int("qSize"), 0, 2)))
	l.Run()
	log := &verifLaneLog{}
	gate := make(chan struct{})
	call := func(ctx context.Context, req interface{}) (interface{}, error) {
		id := req.(int)
		symx.YieldOn(log)
		n := symx.GhostAdd(&log.running, 1)
		symx.Assert(n == 1, "calls on one lane never overlap in time")
		log.runs[id]++
		if id == 0 {
			<-gate
		}
		symx.YieldOn(log)
		symx.GhostAdd(&log.running, -1)
		return 100 + id, nil
	}
	busy := symx.Bool("behindBusyCall")
	var rA, rD interface{}
	var eA, eD error
	var tA symx.ThreadID
	if busy {
		tA = symx.Go("callerA", func() { rA, eA = l.AsyncCall(verifNewCtx(), NewCallCtx(call, 0)) })
		symx.WaitQuiescent()
	}
	dead := verifNewCtx()
	dead.cancel()
	tD := symx.Go("deadCaller", func() { rD, eD = l.AsyncCall(dead, NewCallCtx(call, 1)) })
	symx.WaitQuiescent()
	symx.MustFinish(tD, "a caller whose context has ended returns without waiting for the lane")
	if busy {
		close(gate)
		symx.WaitQuiescent()
		symx.MustFinish(tA, "the busy call completes")
		symx.Assert(eA == nil && rA.(int) == 100, "caller A receives the result of its own call")
	}
	if eD == nil {
		symx.Assert(log.runs[1] == 1 && rD != nil && rD.(int) == 101, "a nil error comes with the result of the caller's own call")
	} else {
		symx.Assert(eD == context.Canceled && rD == nil, "otherwise the caller gets its own context's error and no result")
	}
	l.Stop()
	tW := symx.Go("waiter", func() { wg.Wait() })
	symx.WaitQuiescent()
	symx.MustFinish(tW, "after Stop the lane goroutine terminates, the backlog drained")
	symx.Assert(log.runs[1] <= 1, "at most once")
	symx.Reach("end")
}

// C14/H2e (single line, placements of Stop): Stop issued by a call running on the lane with another call
// already queued behind it, and Stop issued before Run (the lane is started afterwards): Stop returns, both
// accepted calls complete with their own results, a later call is refused, the lane goroutine terminates.
func VerifH_LineStopInside() {
	wg := &sync.WaitGroup{}
	qSize := symx.Concrete(symx.Int("qSize"), 0, 2)
	l := NewLine(wg, WithQSize(qSize))
	beforeRun := symx.Bool("stopBeforeRun")
	symx.Assume(!beforeRun || qSize != 1) // two calls must fit into the queue of a lane that does not run yet
	if !beforeRun {
		l.Run()
	}
	var ran [3]int
	gate := make(chan struct{})
	call := func(ctx context.Context, req interface{}) (interface{}, error) {
		id := req.(int)
		ran[id]++
		if id == 0 && !beforeRun {
			<-gate
			l.Stop()
		}
		return 100 + id, nil
	}
	var r [3]interface{}
	var e [3]error
	tA := symx.Go("callerA", func() { r[0], e[0] = l.AsyncCall(verifNewCtx(), NewCallCtx(call, 0)) })
	symx.WaitQuiescent()
	tB := symx.Go("callerB", func() { r[1], e[1] = l.AsyncCall(verifNewCtx(), NewCallCtx(call, 1)) })
	symx.WaitQuiescent()
	symx.Assert(symx.Blocked(tA) && symx.Blocked(tB), "both calls are accepted and wait (lane busy or not yet running)")
	if beforeRun {
		tS := symx.Go("stopper", func() { l.Stop() })
		symx.WaitQuiescent()
		symx.MustFinish(tS, "Stop returns without the lane having run")
		l.Run()
	} else {
		close(gate)
	}
	symx.WaitQuiescent()
	symx.MustFinish(tA, "a call accepted before Stop completes")
	symx.MustFinish(tB, "a call accepted before Stop completes")
	symx.Assert(e[0] == nil && r[0].(int) == 100 && ran[0] == 1, "caller A receives the result of its own call, run once")
	symx.Assert(e[1] == nil && r[1].(int) == 101 && ran[1] == 1, "caller B receives the result of its own call, run once")
	tC := symx.Go("late", func() { r[2], e[2] = l.AsyncCall(verifNewCtx(), NewCallCtx(call, 2)) })
	symx.WaitQuiescent()
	symx.MustFinish(tC, "a call after Stop returns at once")
	symx.Assert(e[2] == pipe.ErrQueueClosed && ran[2] == 0, "after Stop no new call is accepted")
	tW := symx.Go("waiter", func() { wg.Wait() })
	symx.WaitQuiescent()
	symx.MustFinish(tW, "after Stop the lane goroutine terminates")
	symx.Reach("end")
}
