package keylock

import (
	"github.com/pinealctx/neptune/remap"

	symx "github.com/pinealctx/neptune/zzsymx"
)

// adapter over the four locker types with int keys
type verifLk struct {
	l  Locker
	t  TLocker[int]
	kl []*KeyLocker
	tl []*TKeyLocker[int]
}

func verifNewLocker() *verifLk {
	p := uint64(symx.Param("shards", 2))
	v := &verifLk{}
	switch symx.Param("kind", 0) {
	case 0:
		k := NewKeyLockerInstance()
		v.l, v.kl = k, []*KeyLocker{k}
	case 1:
		g := NewKeyLockeGrp(remap.WithPrime(p)).(*KeyLockerGrp)
		v.l, v.kl = g, g.ls
	case 2:
		g := NewXHashKeyLockeGrp(remap.WithPrime(p)).(*KeyLockerGrp)
		v.l, v.kl = g, g.ls
	case 3:
		k := NewTKeyLockerInstance[int]()
		v.t, v.tl = k, []*TKeyLocker[int]{k}
	case 4:
		g := NewTKeyLockeGrp[int](remap.WithPrime(p)).(*TKeyLockerGrp[int])
		v.t, v.tl = g, g.ls
	case 5:
		g := NewTXHashTKeyLockeGrp[int](remap.WithPrime(p)).(*TKeyLockerGrp[int])
		v.t, v.tl = g, g.ls
	}
	return v
}

func (v *verifLk) Lock(k int) {
	if v.l != nil {
		v.l.Lock(k)
	} else {
		v.t.Lock(k)
	}
}
func (v *verifLk) Unlock(k int) {
	if v.l != nil {
		v.l.Unlock(k)
	} else {
		v.t.Unlock(k)
	}
}
func (v *verifLk) RLock(k int) {
	if v.l != nil {
		v.l.RLock(k)
	} else {
		v.t.RLock(k)
	}
}
func (v *verifLk) RUnlock(k int) {
	if v.l != nil {
		v.l.RUnlock(k)
	} else {
		v.t.RUnlock(k)
	}
}
func (v *verifLk) entries() int {
	n := 0
	for _, k := range v.kl {
		n += len(k.lockMap)
	}
	for _, k := range v.tl {
		n += len(k.lockMap)
	}
	return n
}

type verifKeyMon struct{ readers, writers int64 }

// every ghost access to a monitor happens in a segment opened by YieldOn(that monitor)
func (m *verifKeyMon) write() {
	symx.YieldOn(m)
	w := symx.GhostAdd(&m.writers, 1)
	symx.Assert(w == 1 && symx.GhostLoad(&m.readers) == 0, "a write-locked key is held by nobody else in any mode")
	symx.YieldOn(m)
	symx.Assert(symx.GhostLoad(&m.writers) == 1 && symx.GhostLoad(&m.readers) == 0, "nobody enters a write-locked key")
	symx.GhostAdd(&m.writers, -1)
}
func (m *verifKeyMon) read() {
	symx.YieldOn(m)
	symx.GhostAdd(&m.readers, 1)
	symx.Assert(symx.GhostLoad(&m.writers) == 0, "read locks are shared only among readers")
	symx.YieldOn(m)
	symx.Assert(symx.GhostLoad(&m.writers) == 0, "no writer enters a read-locked key")
	symx.GhostAdd(&m.readers, -1)
}

// C02/H2: three goroutines over two keys mixing write and read locks; all interleavings.
func VerifH_KeyLockExclusion() {
	lk := verifNewLocker()
	k1, k2 := symx.Int("k1"), symx.Int("k2")
	symx.Assume(k1 != k2)
	m1, m2 := &verifKeyMon{}, &verifKeyMon{}
	t1 := symx.Go("writer1", func() {
		lk.Lock(k1)
		m1.write()
		lk.Unlock(k1)
	})
	t2 := symx.Go("reader1", func() {
		lk.RLock(k1)
		m1.read()
		lk.RUnlock(k1)
		lk.RLock(k2)
		m2.read()
		lk.RUnlock(k2)
	})
	t3 := symx.Go("writer2", func() {
		lk.Lock(k2)
		m2.write()
		lk.Unlock(k2)
	})
	symx.WaitQuiescent()
	symx.MustFinish(t1, "no deadlock")
	symx.MustFinish(t2, "no deadlock")
	symx.MustFinish(t3, "no deadlock")
	symx.Assert(lk.entries() == 0, "when every lock has been released the locker retains no per-key state")
	symx.Reach("end")
}

// C02/H2b: holding one key never blocks operations on a different key; readers share; a writer waits.
func VerifH_KeyLockIndependence() {
	lk := verifNewLocker()
	k1, k2 := symx.Int("k1"), symx.Int("k2")
	symx.Assume(k1 != k2)
	lk.Lock(k1)
	t := symx.Go("other", func() {
		lk.Lock(k2)
		lk.Unlock(k2)
		lk.RLock(k2)
		lk.RUnlock(k2)
	})
	symx.WaitQuiescent()
	symx.MustFinish(t, "a different key is not blocked by the held key")
	tr := symx.Go("sameKeyReader", func() { lk.RLock(k1); lk.RUnlock(k1) })
	symx.WaitQuiescent()
	symx.Assert(symx.Blocked(tr), "the write-locked key itself blocks a reader")
	lk.Unlock(k1)
	symx.WaitQuiescent()
	symx.MustFinish(tr, "released")
	lk.RLock(k1)
	t2 := symx.Go("secondReader", func() { lk.RLock(k1); lk.RUnlock(k1) })
	symx.WaitQuiescent()
	symx.MustFinish(t2, "read locks are shared")
	lk.RUnlock(k1)
	symx.Assert(lk.entries() == 0, "no per-key state left")
	symx.Reach("end")
}

// C02/H2c: multi-key Locks/RLocks with duplicate-free, consistently ordered lists: no deadlock, all
// listed keys held at once, exclusion per key, no residue. (generic lockers only)
func VerifH_KeyLockMulti() {
	symx.MapOrderAll()
	lk := verifNewLocker()
	symx.Assume(lk.t != nil)
	a, b, c := symx.Int("a"), symx.Int("b"), symx.Int("c")
	if symx.Param("keyA", -1) >= 0 {
		// concrete key family (which shards the keys fall into is then fixed)
		a, b, c = symx.Param("keyA", 0), symx.Param("keyB", 1), symx.Param("keyC", 2)
	}
	symx.Assume(a < b && b < c) // one global key order
	ma, mb, mc := &verifKeyMon{}, &verifKeyMon{}, &verifKeyMon{}
	t1 := symx.Go("ab", func() {
		lk.t.Locks([]int{a, b})
		ma.write() // each monitor checks "held exclusively" for its key while both keys are held
		mb.write()
		lk.t.Unlocks([]int{a, b})
	})
	t2 := symx.Go("bc", func() {
		lk.t.Locks([]int{b, c})
		mb.write()
		mc.write()
		lk.t.Unlocks([]int{b, c})
	})
	t3 := symx.Go("readAC", func() {
		lk.t.RLocks([]int{a, c})
		ma.read()
		mc.read()
		lk.t.RUnlocks([]int{a, c})
	})
	symx.WaitQuiescent()
	symx.MustFinish(t1, "consistently ordered multi-key locks never deadlock")
	symx.MustFinish(t2, "consistently ordered multi-key locks never deadlock")
	symx.MustFinish(t3, "consistently ordered multi-key locks never deadlock")
	symx.Assert(lk.entries() == 0, "no per-key state left")
	symx.Reach("end")
}

// C02/H2b: single-key and multi-key calls mixed on the same keys (generic lockers, single and sharded with
// modulo or xxhash routing): a multi-key writer of [a,b], a single-key writer of b and a single-key
// reader of a - every interleaving: both ways of locking a key exclude each other, nobody deadlocks,
// no per-key state is left.
func VerifH_KeyLockMixed() {
	symx.MapOrderAll()
	lk := verifNewLocker()
	symx.Assume(lk.t != nil)
	a, b := symx.Int("a"), symx.Int("b")
	symx.Assume(a < b)
	ma, mb := &verifKeyMon{}, &verifKeyMon{}
	multiReads := symx.Bool("multiReads")
	t1 := symx.Go("multi", func() {
		if multiReads {
			lk.t.RLocks([]int{a, b})
			ma.read()
			mb.read()
			lk.t.RUnlocks([]int{a, b})
		} else {
			lk.t.Locks([]int{a, b})
			ma.write()
			mb.write()
			lk.t.Unlocks([]int{a, b})
		}
	})
	t2 := symx.Go("singleWriter", func() {
		lk.Lock(b)
		mb.write()
		lk.Unlock(b)
	})
	t3 := symx.Go("singleReader", func() {
		lk.RLock(a)
		ma.read()
		lk.RUnlock(a)
	})
	symx.WaitQuiescent()
	symx.MustFinish(t1, "no deadlock")
	symx.MustFinish(t2, "no deadlock")
	symx.MustFinish(t3, "no deadlock")
	symx.Assert(lk.entries() == 0, "no per-key state left")
	symx.Reach("end")
}

// C02/H2c: multi-key calls of different lengths over the same keys (a pair and a triple, both ascending and
// duplicate free; the pair read- or write-locks): one global lock order means they never deadlock, whatever
// shards the keys fall into; exclusion monitors on the shared keys; no per-key state left.
func VerifH_KeyLockMultiLengths() {
	lk := verifNewLocker()
	symx.Assume(lk.t != nil)
	a := symx.Concrete(symx.Int("a"), 0, 3)
	b, c := a+1, a+2
	ma, mb := &verifKeyMon{}, &verifKeyMon{}
	pairReads := symx.Bool("pairReads")
	t1 := symx.Go("pair", func() {
		if pairReads {
			lk.t.RLocks([]int{a, b})
			ma.read()
			mb.read()
			lk.t.RUnlocks([]int{a, b})
		} else {
			lk.t.Locks([]int{a, b})
			ma.write()
			mb.write()
			lk.t.Unlocks([]int{a, b})
		}
	})
	t2 := symx.Go("triple", func() {
		lk.t.Locks([]int{a, b, c})
		ma.write()
		mb.write()
		lk.t.Unlocks([]int{a, b, c})
	})
	symx.WaitQuiescent()
	symx.MustFinish(t1, "consistently ordered multi-key locks never deadlock")
	symx.MustFinish(t2, "consistently ordered multi-key locks never deadlock")
	symx.Assert(lk.entries() == 0, "no per-key state left")
	symx.Reach("end")
}

// C02/H3: lock order of the sharded generic locker. For a duplicate-free ascending key list the
// per-key locks are taken shard by shard in increasing shard order and, inside a shard, in the caller's
// order - one global order for every caller, which is what makes overlapping multi-key calls deadlock
// free. Lists longer than 12 keys matter: sorting routines switch algorithm there.
func VerifH_KeyLockGroupOrder() {
	symx.MapOrderAll()
	p := symx.Param("shards", 3)
	g := NewTKeyLockeGrp[int](remap.WithPrime(uint64(p))).(*TKeyLockerGrp[int])
	n := symx.Param("listLen", 13)
	stride := symx.Param("stride", 3)
	base := symx.Concrete(symx.Int("base"), 0, 2)
	keys := make([]int, n)
	for i := range keys {
		keys[i] = base + i*stride + (i%2)*symx.Param("jitter", 0)
	}
	ms := g.calculateSortedMultiKeys(keys)
	total := 0
	lastShard := -1
	for _, m := range ms {
		symx.Assert(m.index > lastShard && m.index < p, "shards visited in strictly increasing order")
		lastShard = m.index
		prev := -1 << 62
		for _, k := range m.ks {
			symx.Assert(k%p == m.index, "key grouped under its own shard")
			symx.Assert(k > prev, "inside a shard the caller's (global) key order is kept")
			prev = k
			total++
		}
	}
	symx.Assert(total == n, "every listed key is locked exactly once")
	// and the whole call works end to end
	g.Locks(keys)
	g.Unlocks(keys)
	g.RLocks(keys)
	g.RUnlocks(keys)
	n2 := 0
	for _, l := range g.ls {
		n2 += len(l.lockMap)
	}
	symx.Assert(n2 == 0, "no per-key state left")
	symx.Reach("end")
}

// C02/H5: many holders of one key. `holders` read locks are taken through the public API (the
// controller takes them one after the other; a read lock never waits for readers), then one more
// reader comes and goes: the key must still be held — a writer waits, the entry is still there —
// until the last holder has released. The holder count ranges over a window around the wrap-around
// points of narrow counters (2^8; 2^16 in the thorough tier).
func VerifH_KeyLockManyHolders() {
	v := verifNewLocker()
	key := symx.Int("key")
	// every holder count in a window [lo, lo+span) around the wrap-around point
	lo, span := symx.Param("holdersLo", 250), symx.Param("holdersSpan", 12)
	holders := symx.Concrete(symx.Int("holders"), lo, lo+span-1)
	symx.Unwind(lo + span + 8)
	for i := 0; i < holders; i++ {
		v.RLock(key)
	}
	v.RLock(key)
	v.RUnlock(key)
	symx.Assert(v.entries() == 1, "the per-key state stays while holders remain")
	var ghost int64
	tw := symx.Go("writer", func() {
		v.Lock(key)
		symx.YieldOn(&ghost)
		symx.GhostAdd(&ghost, 1)
		v.Unlock(key)
	})
	symx.WaitQuiescent()
	symx.Assert(symx.Blocked(tw) && symx.GhostLoad(&ghost) == 0, "a writer waits while readers hold the key")
	for i := 0; i < holders; i++ {
		if i == holders-1 {
			symx.Assert(symx.Blocked(tw), "the writer waits for the last reader")
		}
		v.RUnlock(key)
	}
	symx.WaitQuiescent()
	symx.MustFinish(tw, "the writer gets the key once every reader has released")
	symx.Assert(v.entries() == 0, "no per-key state is left")
	symx.Reach("end")
}
