package tree

import (
	"github.com/pinealctx/neptune/ds/tree/btree"

	symx "github.com/pinealctx/neptune/zzsymx"
)

func verifFind(model []btree.VerifKey, k int64) (int, bool) {
	for i, m := range model {
		if m.K == k {
			return i, true
		}
		if m.K > k {
			return i, false
		}
	}
	return len(model), false
}

// the wrapper's lock must be write-held during mutations and read-held during reads: checked from
// inside the callbacks the tree makes (filter) and after each call (released again)
func verifLockFree(b *BTree) {
	w, r := symx.RWMutexState(b.rw)
	symx.Assert(!w && r == 0, "the wrapper releases its lock before returning")
}

// C03/H1 (wrapper): one wrapper operation from an arbitrary valid tree; scans with a symbolic limit
// n >= 0 and a nondeterministic filter (one fresh symbolic bool per visited item).
func VerifH_TreeStep() {
	inner, model := btree.VerifBuild(2)
	b := NewBTree()
	b.t = inner
	key := btree.VerifKey{K: symx.Int64("opKey"), Tag: symx.Int("opTag")}
	symx.Assume(key.K > -(1<<62) && key.K < 1<<62)
	idx, found := verifFind(model, key.K)
	op := symx.Concrete(symx.Int("op"), 0, 8)
	switch op {
	case 0:
		b.Insert(key)
		if found {
			model[idx] = key
		} else {
			model = append(model[:idx:idx], append([]btree.VerifKey{key}, model[idx:]...)...)
		}
	case 1, 2:
		nk := btree.VerifKey{K: symx.Int64("newKey"), Tag: symx.Int("newTag")}
		symx.Assume(nk.K > -(1<<62) && nk.K < 1<<62)
		var ok bool
		if op == 1 {
			ok = b.Update(key, nk)
		} else {
			ok = b.UpdateOrInsert(key, nk)
		}
		symx.Assert(ok == found, "Update/UpdateOrInsert report whether the old item existed")
		if found {
			model = append(model[:idx:idx], model[idx+1:]...)
		}
		if found || op == 2 {
			j, f2 := verifFind(model, nk.K)
			if f2 {
				model[j] = nk
			} else {
				model = append(model[:j:j], append([]btree.VerifKey{nk}, model[j:]...)...)
			}
		}
	case 3:
		ok := b.Delete(key)
		symx.Assert(ok == found, "Delete reports whether the item existed")
		if found {
			model = append(model[:idx:idx], model[idx+1:]...)
		}
	case 4:
		got := b.Get(key)
		if found {
			symx.Assert(got != nil && got.(btree.VerifKey) == model[idx], "Get returns the stored item")
		} else {
			symx.Assert(got == nil, "Get of an absent key")
		}
	default: // 5..8: the four bounded scans
		n := symx.Int("limit")
		symx.Assume(n >= 0 && n <= len(model)+1) // negative n makes make() panic: precondition; n > size behaves as size+1
		n = symx.Concrete(n, 0, len(model)+1)
		var pivot Node = key
		var pv *btree.VerifKey = &key
		if symx.Bool("nilPivot") {
			pivot, pv = nil, nil
		}
		asc := op == 5 || op == 6
		incl := op == 5 || op == 7
		all := btree.VerifScan(model, asc, pv, incl)
		var want []btree.VerifKey
		visited := 0
		filter := func(v Node) bool {
			w, r := symx.RWMutexState(b.rw)
			symx.Assert(!w && r == 1, "scans hold the read lock while the tree is traversed")
			symx.Assert(visited < len(all) && v.(btree.VerifKey) == all[visited], "the filter sees the items in scan order")
			keep := symx.Bool("keep")
			if keep && len(want) < n {
				want = append(want, v.(btree.VerifKey))
			}
			visited++
			return keep
		}
		var got []Node
		switch op {
		case 5:
			got = b.AscendGte(pivot, filter, n)
		case 6:
			got = b.AscendGt(pivot, filter, n)
		case 7:
			got = b.DescendLte(pivot, filter, n)
		case 8:
			got = b.DescendLt(pivot, filter, n)
		}
		symx.Assert(len(got) == len(want), "a scan returns exactly the first n matching items")
		if len(got) == len(want) {
			for i := range want {
				symx.Assert(got[i].(btree.VerifKey) == want[i], "in scan order")
			}
		}
		if n == 0 {
			symx.Assert(got == nil && visited == 0, "limit 0 visits nothing")
		}
		if len(want) < n {
			symx.Assert(visited == len(all), "fewer than n matches: every item from the pivot on was offered to the filter")
		}
	}
	verifLockFree(b)
	btree.VerifCheck(b.t, model, "after the wrapper operation")
	symx.Reach("end")
}

type verifLockedKey struct {
	btree.VerifKey
	b *BTree
}

// Less asserts that the wrapper's lock is held whenever the tree compares keys
func (a verifLockedKey) Less(than btree.Item) bool {
	w, r := symx.RWMutexState(a.b.rw)
	symx.Assert(w || r > 0, "the tree is only touched while the wrapper's lock is held")
	return a.K < than.(verifLockedKey).K
}

// C03/H3: a writer and a reader on the locked wrapper, all interleavings, race monitor.
func VerifH_TreeConcurrent() {
	b := NewBTree()
	mk := func(k int64, tag int) verifLockedKey { return verifLockedKey{btree.VerifKey{K: k, Tag: tag}, b} }
	for i := int64(1); i <= 4; i++ {
		b.Insert(mk(10*i, 0))
	}
	wk := symx.Int64("writeKey")
	symx.Assume(wk >= 0 && wk <= 50)
	var got Node
	var scan []Node
	tw := symx.Go("writer", func() {
		b.Insert(mk(wk, 1))
		b.Delete(mk(20, 0))
	})
	tr := symx.Go("reader", func() {
		got = b.Get(mk(30, 0))
		scan = b.AscendGte(mk(0, 0), func(Node) bool { return true }, 10)
	})
	symx.WaitQuiescent()
	symx.MustFinish(tw, "no deadlock")
	symx.MustFinish(tr, "no deadlock")
	if wk != 30 {
		symx.Assert(got != nil && got.(verifLockedKey).K == 30 && got.(verifLockedKey).Tag == 0, "Get sees the stored item")
	}
	symx.Assert(len(scan) >= 3 && len(scan) <= 5, "a scan sees a consistent snapshot between the writer's operations")
	for i := 1; i < len(scan); i++ {
		symx.Assert(scan[i-1].(verifLockedKey).K < scan[i].(verifLockedKey).K, "ascending")
	}
	symx.Reach("end")
}

// C03/H3b: Update / UpdateOrInsert are one write as far as concurrent readers can tell: every scan and
// Get made by a reader while the writer replaces old by new sees the set before or the set after the
// replacement, never an in-between set (the wrapper's mechanism is delete(old)+replaceOrInsert(new)).
func VerifH_TreeUpdateAtomic() {
	b := NewBTree()
	mk := func(k int64, tag int) verifLockedKey { return verifLockedKey{btree.VerifKey{K: k, Tag: tag}, b} }
	for i := int64(1); i <= 3; i++ {
		b.Insert(mk(10*i, 0))
	}
	oldK := symx.Int64("oldKey")
	newK := symx.Int64("newKey")
	symx.Assume(oldK >= 5 && oldK <= 35 && newK >= 5 && newK <= 35)
	orInsert := symx.Bool("orInsert")
	oldPresent := oldK == 10 || oldK == 20 || oldK == 30
	before := []int64{10, 20, 30}
	var after []int64
	for _, k := range before {
		if !(oldPresent && k == oldK) {
			after = append(after, k)
		}
	}
	if oldPresent || orInsert {
		ins := []int64{}
		done := false
		for _, k := range after {
			if k == newK {
				done = true
			}
			if !done && k > newK {
				ins = append(ins, newK)
				done = true
			}
			ins = append(ins, k)
		}
		if !done {
			ins = append(ins, newK)
		}
		after = ins
	}
	var ok bool
	var scan []Node
	var got Node
	tw := symx.Go("writer", func() {
		if orInsert {
			ok = b.UpdateOrInsert(mk(oldK, 0), mk(newK, 1))
		} else {
			ok = b.Update(mk(oldK, 0), mk(newK, 1))
		}
	})
	tr := symx.Go("reader", func() {
		scan = b.AscendGte(nil, func(Node) bool { return true }, 10)
		got = b.Get(mk(newK, 0))
	})
	symx.WaitQuiescent()
	symx.MustFinish(tw, "no deadlock")
	symx.MustFinish(tr, "no deadlock")
	symx.Assert(ok == oldPresent, "Update/UpdateOrInsert report whether the old item existed")
	same := func(want []int64) bool {
		if len(scan) != len(want) {
			return false
		}
		for i := range want {
			if scan[i].(verifLockedKey).K != want[i] {
				return false
			}
		}
		return true
	}
	symx.Assert(same(before) || same(after), "a concurrent scan sees the set before or after the update, never in between")
	inBefore := newK == 10 || newK == 20 || newK == 30
	inAfter := false
	for _, k := range after {
		if k == newK {
			inAfter = true
		}
	}
	if inBefore && inAfter {
		symx.Assert(got != nil, "a key present before and after the update is never observed missing")
	}
	fin := b.AscendGte(nil, func(Node) bool { return true }, 10)
	symx.Assert(len(fin) == len(after), "final contents")
	for i := range after {
		if i < len(fin) {
			symx.Assert(fin[i].(verifLockedKey).K == after[i], "final contents in order")
		}
	}
	symx.Reach("end")
}

// C03/H1c (wrapper, large limits): a tree of `items` consecutive keys built through the public API and
// scanned with limits around and above 1024 (and above the item count): a scan returns exactly the first
// min(n, matching) items in scan order - limits are not clamped by anything but the set itself.
func VerifH_TreeLargeScan() {
	items := symx.Param("items", 1100)
	b := NewBTree()
	for i := 0; i < items; i++ {
		b.Insert(btree.VerifKey{K: int64(i), Tag: 0})
	}
	limits := []int{1023, 1024, 1025, items - 1, items, items + 1, 2000}
	n := limits[symx.Concrete(symx.Int("limit"), 0, len(limits)-1)]
	pv := int64(symx.Concrete(symx.Int("pivot"), 0, 2)) * 30 // pivots 0, 30, 60
	var pivot Node = btree.VerifKey{K: pv}
	if symx.Bool("nilPivot") {
		pivot = nil
	}
	all := func(Node) bool { return true }
	op := symx.Concrete(symx.Int("op"), 0, 3)
	var got []Node
	var first, matching int64
	step := int64(1)
	switch op {
	case 0:
		got = b.AscendGte(pivot, all, n)
		first, matching = pv, int64(items)-pv
	case 1:
		got = b.AscendGt(pivot, all, n)
		first, matching = pv+1, int64(items)-pv-1
	case 2:
		// descending from a pivot near the top so that more than 1024 items match
		top := int64(items) - 1 - pv
		if pivot != nil {
			pivot = btree.VerifKey{K: top}
		}
		got = b.DescendLte(pivot, all, n)
		first, matching, step = top, top+1, -1
	case 3:
		top := int64(items) - 1 - pv
		if pivot != nil {
			pivot = btree.VerifKey{K: top}
		}
		got = b.DescendLt(pivot, all, n)
		first, matching, step = top-1, top, -1
	}
	if pivot == nil {
		matching = int64(items)
		if step == 1 {
			first = 0
		} else {
			first = int64(items) - 1
		}
	}
	want := int64(n)
	if matching < want {
		want = matching
	}
	symx.Assert(int64(len(got)) == want, "a scan returns exactly the first min(n, matching) items")
	for i := 0; i < len(got) && int64(i) < want; i += 97 {
		symx.Assert(got[i].(btree.VerifKey).K == first+step*int64(i), "in scan order")
	}
	if len(got) > 0 {
		symx.Assert(got[len(got)-1].(btree.VerifKey).K == first+step*int64(len(got)-1), "in scan order up to the last item")
	}
	symx.Reach("end")
}
