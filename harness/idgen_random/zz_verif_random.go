package random

import (
	"strconv"

	symx "github.com/pinealctx/neptune/zzsymx"
)

// C19/H2: the nonce generator against the Intn contract (0 <= r < n): right length, every character
// from the alphabet, and - a satisfiability obligation - every character of the alphabet can occur.
func VerifH_GenNonceStr() {
	L := symx.Param("alphabet", 10)
	base := symx.String("base", L)
	for i := 0; i < L; i++ {
		for j := 0; j < i; j++ {
			symx.Assume(base[i] != base[j]) // distinct characters, so "can occur" is observable
		}
	}
	n := symx.Concrete(symx.Int("length"), 0, 3)
	var out string
	symx.NoPanic("genNonceStr panicked", func() {
		out = genNonceStr(base, n, func(arg int) int {
			symx.Assert(arg > 0, "Intn is called with a positive bound")
			r := symx.Int("r")
			symx.Assume(r >= 0 && r < arg)
			return r
		})
	})
	symx.Assert(len(out) == n, "the nonce has the requested length")
	for i := 0; i < n; i++ {
		in := false
		for j := 0; j < L; j++ {
			if out[i] == base[j] {
				in = true
			}
		}
		symx.Assert(in, "every character comes from the alphabet")
	}
	if n > 0 {
		for j := 0; j < L; j++ {
			symx.Sat(out[0] == base[j], "alphabet character #"+strconv.Itoa(j)+" can occur at position 0")
		}
		symx.Sat(out[n-1] == base[L-1], "the last character of the alphabet can occur (last position)")
	}
	symx.Reach("end")
}
