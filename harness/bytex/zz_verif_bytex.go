package bytex

import (
	"io"
	"math"

	symx "github.com/pinealctx/neptune/zzsymx"
)

const verifKinds = 16

type verifVal struct {
	kind  int
	u     uint64 // integer payload (all integer kinds, bool, f64 bits)
	s     string // string kinds and raw bytes
	limit uint32
}

func verifNewVal(kind int) verifVal {
	v := verifVal{kind: kind}
	switch kind {
	case 13, 14, 15:
		n := symx.Concrete(symx.Int("slen"), 0, symx.Param("maxStr", 2))
		if kind == 15 && n == 0 {
			n = 1 // ReadN(0) is documented to fail: raw reads need n >= 1
		}
		v.s = symx.String("s", n)
		if kind == 14 {
			v.limit = symx.Uint32("limit")
		}
	default:
		v.u = symx.Uint64("v")
	}
	return v
}

// write one value; reports whether the write was accepted (size-limited strings can be refused)
func verifWrite(b *BufferX, v verifVal) bool {
	switch v.kind {
	case 0:
		b.WriteBool(v.u&1 == 1)
	case 1:
		b.WriteU8(uint8(v.u))
	case 2:
		b.WriteU16(uint16(v.u))
	case 3:
		b.WriteI16(int16(v.u))
	case 4:
		b.WriteU32(uint32(v.u))
	case 5:
		b.WriteI32(int32(v.u))
	case 6:
		b.WriteU64(v.u)
	case 7:
		b.WriteI64(int64(v.u))
	case 8:
		b.WriteVarU64(v.u)
	case 9:
		b.WriteVarI64(int64(v.u))
	case 10:
		b.WriteVarU32(uint32(v.u))
	case 11:
		b.WriteVarI32(int32(v.u))
	case 12:
		b.WriteF64(math.Float64frombits(v.u))
	case 13:
		b.WriteString(v.s)
	case 14:
		before := b.Len()
		err := b.WriteLimitString(v.limit, v.s)
		symx.Assert((err != nil) == (uint32(len(v.s)) > v.limit), "WriteLimitString fails iff len > limit")
		if err != nil {
			symx.Assert(b.Len() == before, "a refused string writes nothing")
			return false
		}
	case 15:
		b.Write([]byte(v.s))
	}
	return true
}

func verifReadBack(b *BufferX, v verifVal) {
	var err error
	ok := true
	switch v.kind {
	case 0:
		var x bool
		x, err = b.ReadBool()
		ok = x == (v.u&1 == 1)
	case 1:
		var x uint8
		x, err = b.ReadU8()
		ok = x == uint8(v.u)
	case 2:
		var x uint16
		x, err = b.ReadU16()
		ok = x == uint16(v.u)
	case 3:
		var x int16
		x, err = b.ReadI16()
		ok = x == int16(v.u)
	case 4:
		var x uint32
		x, err = b.ReadU32()
		ok = x == uint32(v.u)
	case 5:
		var x int32
		x, err = b.ReadI32()
		ok = x == int32(v.u)
	case 6:
		var x uint64
		x, err = b.ReadU64()
		ok = x == v.u
	case 7:
		var x int64
		x, err = b.ReadI64()
		ok = x == int64(v.u)
	case 8:
		var x uint64
		x, err = b.ReadVarU64()
		ok = x == v.u
	case 9:
		var x int64
		x, err = b.ReadVarI64()
		ok = x == int64(v.u)
	case 10:
		var x uint32
		x, err = b.ReadVarU32()
		ok = x == uint32(v.u)
	case 11:
		var x int32
		x, err = b.ReadVarI32()
		ok = x == int32(v.u)
	case 12:
		var x float64
		x, err = b.ReadF64()
		ok = math.Float64bits(x) == v.u
	case 13:
		var x string
		x, err = b.ReadString()
		ok = x == v.s
	case 14:
		var x string
		x, err = b.ReadLimitString(v.limit)
		ok = x == v.s
	case 15:
		var x []byte
		if symx.Bool("zeroCopy") {
			x, err = b.ZReadN(len(v.s))
		} else {
			x, err = b.ReadN(len(v.s))
		}
		ok = string(x) == v.s
	}
	symx.Assert(err == nil, "reading back what was written does not fail")
	symx.Assert(ok, "the value read equals the value written")
}

func verifNewBuffer() *BufferX {
	switch symx.Concrete(symx.Int("ctor"), 0, 2) {
	case 0:
		return NewBufferX()
	case 1:
		return NewSizedBufferX(symx.Concrete(symx.Int("size"), 0, 3))
	}
	return NewReadableBufferX(symx.Bytes("existing", symx.Concrete(symx.Int("existingLen"), 0, 2)))
}

// C10/H1: every ordered pair of write kinds, then the same pair of reads.
func VerifH_RoundTripPairs() {
	b := verifNewBuffer()
	pre := b.Len()
	preBytes := append([]byte(nil), b.Bytes()...)
	v1 := verifNewVal(symx.Concrete(symx.Int("kind1"), 0, verifKinds-1))
	v2 := verifNewVal(symx.Concrete(symx.Int("kind2"), 0, verifKinds-1))
	w1 := verifWrite(b, v1)
	mid := b.Len()
	midBytes := append([]byte(nil), b.Bytes()...)
	w2 := verifWrite(b, v2)
	// writes only append
	all := b.Bytes()
	for i := 0; i < mid; i++ {
		symx.Assert(all[i] == midBytes[i], "a write only appends")
	}
	for i := 0; i < pre; i++ {
		symx.Assert(all[i] == preBytes[i], "a write only appends (existing unread bytes kept)")
	}
	// consume the pre-existing unread bytes, then read the two values back
	if pre > 0 {
		p, err := b.ReadN(pre)
		symx.Assert(err == nil && string(p) == string(preBytes), "existing bytes come out first")
	}
	if w1 {
		verifReadBack(b, v1)
	}
	if w2 {
		verifReadBack(b, v2)
	}
	symx.Assert(b.Len() == 0, "the same sequence of reads leaves the buffer empty")
	symx.Reach("end")
}

func verifLE(p []byte, n int) uint64 {
	var u uint64
	for i := 0; i < n; i++ {
		u |= uint64(p[i]) << uint(8*i)
	}
	return u
}

// reference unsigned varint: (value, bytes consumed, ok)
func verifUvarint(p []byte) (uint64, int, bool) {
	var x uint64
	var s uint
	for i := 0; i < len(p); i++ {
		c := p[i]
		if i == 10 {
			return 0, i + 1, false // overflow
		}
		if c < 0x80 {
			if i == 9 && c > 1 {
				return 0, i + 1, false // overflow
			}
			return x | uint64(c)<<s, i + 1, true
		}
		x |= uint64(c&0x7f) << s
		s += 7
	}
	return 0, len(p), false
}

// C10/H2: every decoder on arbitrary bytes: never panics; error and zero value, or exactly the
// little-endian / varint / length-prefixed value the bytes denote.
func VerifH_DecodeArbitrary() {
	L := symx.Param("len", 4)
	data := symx.Bytes("data", L)
	b := NewReadableBufferX(append([]byte(nil), data...))
	kind := symx.Concrete(symx.Int("kind"), 0, verifKinds-1)
	var err error
	var u uint64   // decoded integer payload
	var s string   // decoded string payload
	width := 0     // fixed width of the kind, 0 for variable
	symx.NoPanic("decoder panicked on arbitrary bytes", func() {
		switch kind {
		case 0:
			var x bool
			x, err = b.ReadBool()
			if x {
				u = 1
			}
			width = 1
		case 1:
			var x uint8
			x, err = b.ReadU8()
			u, width = uint64(x), 1
		case 2:
			var x uint16
			x, err = b.ReadU16()
			u, width = uint64(x), 2
		case 3:
			var x int16
			x, err = b.ReadI16()
			u, width = uint64(uint16(x)), 2
		case 4:
			var x uint32
			x, err = b.ReadU32()
			u, width = uint64(x), 4
		case 5:
			var x int32
			x, err = b.ReadI32()
			u, width = uint64(uint32(x)), 4
		case 6:
			u, err = b.ReadU64()
			width = 8
		case 7:
			var x int64
			x, err = b.ReadI64()
			u, width = uint64(x), 8
		case 8:
			u, err = b.ReadVarU64()
		case 9:
			var x int64
			x, err = b.ReadVarI64()
			u = uint64(x)
		case 10:
			var x uint32
			x, err = b.ReadVarU32()
			u = uint64(x)
		case 11:
			var x int32
			x, err = b.ReadVarI32()
			u = uint64(uint32(x))
		case 12:
			var x float64
			x, err = b.ReadF64()
			u, width = math.Float64bits(x), 8
		case 13:
			s, err = b.ReadString()
		case 14:
			s, err = b.ReadLimitString(symx.Uint32("limit"))
		case 15:
			var p []byte
			p, err = b.ReadN(symx.Concrete(symx.Int("n"), -1, 3))
			if err != nil {
				p = nil
			}
			s = string(p)
		}
	})
	// on error the statement only requires that an error is reported (encoding/binary's varint readers
	// return the partial value next to the error); nothing is claimed about the value then
	switch {
	case width > 0:
		symx.Assert((err == nil) == (L >= width), "fixed-width read succeeds iff enough bytes")
		if err == nil {
			want := verifLE(data, width)
			if kind == 0 {
				if want != 0 {
					want = 1
				}
			}
			symx.Assert(u == want, "little-endian value of the first bytes")
			symx.Assert(b.Len() == L-width, "consumes exactly its width")
		}
	case kind == 8 || kind == 10:
		x, n, ok := verifUvarint(data)
		symx.Assert((err == nil) == ok, "unsigned varint accepted iff well formed")
		if ok {
			if kind == 10 {
				x = uint64(uint32(x))
			}
			symx.Assert(u == x && b.Len() == L-n, "unsigned varint value and length")
		}
	case kind == 9 || kind == 11:
		x, n, ok := verifUvarint(data)
		symx.Assert((err == nil) == ok, "signed varint accepted iff well formed")
		if ok {
			z := int64(x >> 1)
			if x&1 != 0 {
				z = ^z
			}
			want := uint64(z)
			if kind == 11 {
				want = uint64(uint32(int32(z)))
			}
			symx.Assert(u == want && b.Len() == L-n, "zig-zag varint value and length")
		}
	case kind == 13 || kind == 14:
		if L < 4 {
			symx.Assert(err != nil, "string without a complete length prefix fails")
		} else {
			n := verifLE(data, 4)
			if err == nil {
				symx.Assert(n <= uint64(L-4) && s == string(data[4:4+int(n)]), "string = the n bytes after the prefix")
				symx.Assert(b.Len() == L-4-int(n), "consumes prefix and payload")
			} else if kind == 13 {
				symx.Assert(n > uint64(L-4), "plain string fails only when the payload is truncated")
			}
		}
	}
	symx.Reach("end")
}

// verifChunkReader hands out src in symbolic chunk sizes (1..remaining, capped by len(p)), then io.EOF.
type verifChunkReader struct {
	src []byte
	off int
}

func (r *verifChunkReader) Read(p []byte) (int, error) {
	if r.off >= len(r.src) {
		return 0, io.EOF
	}
	max := len(r.src) - r.off
	if len(p) < max {
		max = len(p)
	}
	if max == 0 {
		return 0, nil
	}
	n := symx.Concrete(symx.Int("chunk"), 1, max)
	copy(p, r.src[r.off:r.off+n])
	r.off += n
	if r.off == len(r.src) && symx.Bool("eofWithData") {
		return n, io.EOF
	}
	return n, nil
}

// C10/H3: the stream reader decodes what the buffer reader decodes from the same bytes, for every chunking.
func VerifH_StreamEqualsBuffer() {
	L := symx.Param("len", 4)
	data := symx.Bytes("data", L)
	buf := NewReadableBufferX(append([]byte(nil), data...))
	rd := NewReaderX(&verifChunkReader{src: data})
	kind := symx.Concrete(symx.Int("kind"), 0, 10)
	var e1, e2 error
	same := true
	switch kind {
	case 10:
		// two consecutive raw fields (zero-copy reads), both looked at after the second read: what an
		// earlier read returned still denotes that field
		na := symx.Concrete(symx.Int("na"), 1, 2)
		nb := symx.Concrete(symx.Int("nb"), 1, 2)
		xa, ea1 := buf.ZReadN(na)
		ya, ea2 := rd.ZReadN(na)
		symx.Assert((ea1 == nil) == (ea2 == nil), "stream and buffer reader agree on success/failure (first raw field)")
		if ea1 != nil || ea2 != nil {
			break
		}
		var xb, yb []byte
		xb, e1 = buf.ZReadN(nb)
		yb, e2 = rd.ZReadN(nb)
		if e1 == nil && e2 == nil {
			same = string(xb) == string(yb) && string(xa) == string(ya) && string(ya) == string(data[:na])
		}
	case 0:
		var x, y bool
		x, e1 = buf.ReadBool()
		y, e2 = rd.ReadBool()
		same = x == y
	case 1:
		var x, y byte
		x, e1 = buf.ReadU8()
		y, e2 = rd.ReadByte()
		same = x == y
	case 2:
		var x, y uint16
		x, e1 = buf.ReadU16()
		y, e2 = rd.ReadU16()
		same = x == y
	case 3:
		var x, y int32
		x, e1 = buf.ReadI32()
		y, e2 = rd.ReadI32()
		same = x == y
	case 4:
		var x, y uint64
		x, e1 = buf.ReadU64()
		y, e2 = rd.ReadU64()
		same = x == y
	case 5:
		var x, y float64
		x, e1 = buf.ReadF64()
		y, e2 = rd.ReadF64()
		same = math.Float64bits(x) == math.Float64bits(y)
	case 6, 7:
		// length-prefixed strings; prefixes above 8 would make the stream reader allocate n bytes
		if L >= 4 {
			symx.Assume(verifLE(data, 4) <= 8)
		}
		var x, y string
		if kind == 6 {
			x, e1 = buf.ReadString()
			y, e2 = rd.ReadString()
		} else {
			lim := symx.Uint32("limit")
			x, e1 = buf.ReadLimitString(lim)
			y, e2 = rd.ReadLimitString(lim)
		}
		same = x == y
	case 8:
		n := symx.Concrete(symx.Int("n"), 1, 3)
		var x, y []byte
		x, e1 = buf.ReadN(n)
		y, e2 = rd.ReadN(n)
		if e1 == nil && e2 == nil {
			same = string(x) == string(y)
		}
	case 9:
		var x, y int16
		x, e1 = buf.ReadI16()
		y, e2 = rd.ReadI16()
		same = x == y
	}
	symx.Assert((e1 == nil) == (e2 == nil), "stream and buffer reader agree on success/failure")
	if e1 == nil && e2 == nil {
		symx.Assert(same, "stream and buffer reader decode the same value")
	}
	symx.Reach("end")
}

// C10/H4: in-place rewrite changes exactly the addressed bytes of the unread region.
func VerifH_ReWrite() {
	b := verifNewBuffer()
	b.Write(symx.Bytes("content", symx.Concrete(symx.Int("n"), 4, 6)))
	if symx.Bool("consumeOne") && b.Len() > 4 {
		_, _ = b.ReadU8()
	}
	n := b.Len()
	before := append([]byte(nil), b.Bytes()...)
	pos := symx.Concrete(symx.Int("pos"), 0, n-1)
	var p []byte
	if symx.Bool("u32") {
		symx.Assume(pos+4 <= n)
		v := symx.Uint32("v")
		b.ReWriteU32(pos, v)
		p = []byte{byte(v), byte(v >> 8), byte(v >> 16), byte(v >> 24)}
	} else {
		p = symx.Bytes("patch", symx.Concrete(symx.Int("plen"), 0, 3))
		symx.Assume(pos+len(p) <= n)
		b.ReWrite(pos, p)
	}
	after := b.Bytes()
	symx.Assert(len(after) == n, "rewrite does not change the length")
	for i := 0; i < n; i++ {
		if i >= pos && i < pos+len(p) {
			symx.Assert(after[i] == p[i-pos], "addressed byte rewritten")
		} else {
			symx.Assert(after[i] == before[i], "other bytes unchanged")
		}
	}
	symx.Reach("end")
}
