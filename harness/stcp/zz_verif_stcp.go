package stcp

import (
	"errors"
	"sync/atomic"

	"go.uber.org/zap"
	"io"
	"net"
	"sync"
	"time"

	symx "github.com/pinealctx/neptune/zzsymx"
)

// verifNetTimeout: what a net.Conn returns when a read or write deadline expires (a net.Error with
// Timeout() and Temporary() both true, like os.ErrDeadlineExceeded)
type verifNetTimeout struct{}

func (verifNetTimeout) Error() string   { return "i/o timeout (injected)" }
func (verifNetTimeout) Timeout() bool   { return true }
func (verifNetTimeout) Temporary() bool { return true }

var (
	verifErrTimeout error = verifNetTimeout{}
	verifErrIO      = errors.New("connection reset (injected)")
	verifErrClosed  = errors.New("use of closed network connection")
)

type verifAddr struct{}

func (verifAddr) Network() string { return "tcp" }
func (verifAddr) String() string  { return "peer:1" }

// verifConn: an in-memory connection. The peer's bytes are in inbox; when they are used up a Read ends
// by symbolic choice with EOF (peer closed), a timeout, or blocks until the connection is closed locally.
// A Write succeeds (the peer reads) or fails by symbolic choice unless the scenario pins it.
type verifConn struct {
	inbox      []byte
	off        int
	outbox     []byte
	closed     bool
	closeCalls int
	closeCh    chan struct{}
	readFaults bool // may a Read on an empty inbox end with EOF / timeout (otherwise it blocks until closed)
	writeFault bool // may a Write fail
	now        func() time.Time // the harness clock (nil: deadlines are not modelled)
	wDeadline  time.Time        // last write deadline set; a Write after it fails with a timeout although the peer reads
	faulted    bool // a terminating event was injected on this connection (peer closed, read/write error or timeout)
	mu         sync.Mutex
}

func newVerifConn(in []byte, readFaults, writeFault bool) *verifConn {
	return &verifConn{inbox: in, closeCh: make(chan struct{}), readFaults: readFaults, writeFault: writeFault}
}

func (c *verifConn) fault() {
	c.mu.Lock()
	c.faulted = true
	c.mu.Unlock()
}

func (c *verifConn) hasFaulted() bool {
	c.mu.Lock()
	defer c.mu.Unlock()
	return c.faulted
}

func (c *verifConn) isClosed() bool {
	c.mu.Lock()
	defer c.mu.Unlock()
	return c.closed
}

func (c *verifConn) Read(p []byte) (int, error) {
	if c.isClosed() {
		return 0, verifErrClosed
	}
	if c.off < len(c.inbox) {
		n := copy(p, c.inbox[c.off:])
		c.off += n
		return n, nil
	}
	if c.readFaults {
		switch symx.Concrete(symx.Int("readEnds"), 0, 2) {
		case 0:
			c.fault()
			return 0, io.EOF
		case 1:
			c.fault()
			return 0, verifErrTimeout
		}
	}
	<-c.closeCh
	return 0, verifErrClosed
}

func (c *verifConn) Write(p []byte) (int, error) {
	if c.isClosed() {
		return 0, verifErrClosed
	}
	if c.writeExpired() {
		// the deadline armed for this connection's writes has passed: the write fails at once
		c.fault()
		return 0, verifErrTimeout
	}
	if c.writeFault {
		switch symx.Concrete(symx.Int("writeEnds"), 0, 2) {
		case 1:
			c.fault()
			return 0, verifErrIO
		case 2: // the write deadline expired: the peer stopped reading
			c.fault()
			return 0, verifErrTimeout
		}
	}
	c.outbox = append(c.outbox, p...)
	return len(p), nil
}

func (c *verifConn) Close() error {
	c.mu.Lock()
	defer c.mu.Unlock()
	c.closeCalls++
	if !c.closed {
		c.closed = true
		close(c.closeCh)
	}
	return nil
}
func (c *verifConn) LocalAddr() net.Addr                { return verifAddr{} }
func (c *verifConn) RemoteAddr() net.Addr               { return verifAddr{} }
func (c *verifConn) SetDeadline(t time.Time) error      { return nil }
func (c *verifConn) SetReadDeadline(t time.Time) error  { return nil }
func (c *verifConn) SetWriteDeadline(t time.Time) error {
	c.mu.Lock()
	c.wDeadline = t
	c.mu.Unlock()
	return nil
}

func (c *verifConn) writeExpired() bool {
	c.mu.Lock()
	defer c.mu.Unlock()
	return c.now != nil && !c.wDeadline.IsZero() && c.now().After(c.wDeadline)
}

// handler: consumes one byte per call, or fails, or panics, by symbolic choice
type verifHandler struct {
	exits    int32
	consumed []byte
	faults   bool
	ended    bool
	maxConn  int32
	mgr      *SessionMgr
}

func (h *verifHandler) Read(s *Session) error {
	if h.mgr != nil {
		symx.Assert(h.mgr.ConnCount() <= h.maxConn, "the connection count never exceeds the configured maximum")
	}
	symx.Assert(!h.ended, "the read handler is not called again after it failed or panicked: that ends the session")
	if h.faults {
		switch symx.Concrete(symx.Int("handler"), 0, 2) {
		case 1:
			h.ended = true
			return verifErrIO
		case 2:
			h.ended = true
			panic("handler blew up")
		}
	}
	var b [1]byte
	if err := s.Read(b[:]); err != nil {
		return err
	}
	h.consumed = append(h.consumed, b[0])
	return nil
}

func (h *verifHandler) OnExit(s *Session) { atomic.AddInt32(&h.exits, 1) }

// logging helpers (atomic loads of the session's value / remote address for log fields) get empty bodies
func verifStubLogging() *time.Time {
	clock := new(time.Time)
	*clock = time.Unix(1700000000, 0)
	symx.Stub("time.Now", func() time.Time { return *clock })
	symx.Stub("github.com/pinealctx/neptune/stcp.absSessionInfo", func(v interface{}, ext ...interface{}) []zap.Field { return nil })
	symx.Stub("github.com/pinealctx/neptune/stcp.absRemoteAddr", func(a interface{}, c net.Conn) string { return "" })
	return clock
}

// C16/H1: one session: Start, up to two Sends, then terminating events at symbolic points; at
// quiescence the session has ended exactly once.
func VerifH_SessionEndsOnce() {
	clock := verifStubLogging()
	faults := symx.Param("faults", 1) == 1
	h := &verifHandler{faults: faults}
	// write deadline 8 s, read deadline 1 h; idle periods of 1 min (no-fault family): longer than a write
	// may take, far shorter than the peer may stay silent
	mgr := NewSessionMgr(h, WithWriteTimeout(8*time.Second), WithReadTimeout(time.Hour))
	conn := newVerifConn(symx.Bytes("peerData", symx.Concrete(symx.Int("peerBytes"), 0, 2)), faults, faults)
	conn.now = func() time.Time { return *clock }
	idle := func() {
		// the session sits idle for a minute: both loops parked, nothing queued
		symx.WaitQuiescent()
		*clock = clock.Add(time.Minute)
	}
	before := mgr.ConnCount()
	s := NewSession(mgr, conn)
	s.Start()
	s.Start() // idempotent
	symx.Assert(mgr.ConnCount() <= before+1, "a started session is counted at most once")
	var accepted []byte
	nSend := symx.Concrete(symx.Int("sends"), 0, 2)
	closeAt := symx.Concrete(symx.Int("closeAt"), 0, 3) // local Close before send #closeAt; 3 = after all sends / never
	for i := 0; i <= nSend; i++ {
		if i == closeAt {
			s.Close()
		}
		if i == nSend {
			break
		}
		if !faults && symx.Bool("idleBeforeSend") {
			idle()
		}
		b := symx.Uint8("payload")
		if s.Send([]byte{b}) == nil {
			accepted = append(accepted, b)
		}
	}
	if !faults && closeAt > nSend {
		// nothing ends the session by itself: end it locally now
		s.Close()
	}
	symx.WaitQuiescent()
	if !faults {
		symx.Assert(len(conn.outbox) == len(accepted), "bytes accepted by Send before a local Close reach the reading peer completely")
		if len(conn.outbox) == len(accepted) {
			for i := range accepted {
				symx.Assert(conn.outbox[i] == accepted[i], "in order")
			}
		}
	} else if conn.hasFaulted() || h.ended {
		symx.Assert(symx.OthersDone(), "a peer close, read/write error or timeout, or a failing handler ends the session by itself")
	} else if closeAt > nSend && !symx.OthersDone() {
		// no terminating event occurred on this path (peer silent, no fault chosen): end it and re-check
		s.Close()
		symx.WaitQuiescent()
	}
	symx.Assert(symx.OthersDone(), "both session goroutines stop")
	symx.Assert(h.exits == 1, "the exit callback runs exactly once, whatever ends the session")
	symx.Assert(conn.closed && conn.closeCalls >= 1, "the connection is closed")
	symx.Assert(mgr.ConnCount() == before, "the manager's connection count returns to its previous value")
	symx.Assert(s.Send([]byte{1}) != nil, "an ended session refuses further sends")
	symx.Reach("end")
}

type verifTempErr struct{}

func (verifTempErr) Error() string   { return "temporary accept error" }
func (verifTempErr) Temporary() bool { return true }

type verifListener struct {
	conns []*verifConn
	next  int
	tried bool
}

func (l *verifListener) Accept() (net.Conn, error) {
	if l.next == 0 && !l.tried && symx.Bool("tempError") {
		l.tried = true
		return nil, verifTempErr{}
	}
	if l.next >= len(l.conns) {
		return nil, verifErrClosed // listener closed: ends the accept loop
	}
	c := l.conns[l.next]
	l.next++
	return c, nil
}
func (l *verifListener) Close() error   { return nil }
func (l *verifListener) Addr() net.Addr { return verifAddr{} }

// C16/H2: the accept loop: the count never exceeds maxConn, surplus connections are closed on accept.
func VerifH_AcceptLoop() {
	verifStubLogging()
	maxConn := int32(symx.Concrete(symx.Int("maxConn"), 0, 2))
	h := &verifHandler{maxConn: maxConn}
	mgr := NewSessionMgr(h)
	h.mgr = mgr
	n := symx.Param("conns", 3)
	ln := &verifListener{}
	for i := 0; i < n; i++ {
		// each peer either hangs up at once (session ends early) or stays silent (session stays up)
		ln.conns = append(ln.conns, newVerifConn(nil, symx.Bool("peerHangsUp"), false))
	}
	srv := NewTCPSrv("fake", mgr)
	srv.ln = ln
	cnf := defaultStartOpt()
	cnf.maxConn = maxConn
	cnf.acceptMaxRetry = 3
	err := srv.loopAccept(cnf)
	symx.Assert(err != nil, "the loop ends with the listener's error")
	symx.WaitQuiescent()
	symx.Assert(mgr.ConnCount() <= maxConn, "the connection count never exceeds the configured maximum")
	open := int32(0)
	for _, c := range ln.conns[:ln.next] {
		if !c.closed {
			open++
		}
	}
	symx.Assert(open == mgr.ConnCount(), "every accepted connection is either a counted session or closed")
	symx.Reach("end")
}
