package cache

import (
	symx "github.com/pinealctx/neptune/zzsymx"
)

type verifItem struct {
	size int
	tag  int
}

func (v verifItem) Size() int { return v.size }

type verifEnt struct {
	key  int
	val  verifItem
	size int64
}

// ideal LRU on a slice, most recently used first
type verifIdeal struct {
	ents      []verifEnt
	size      int64
	capacity  int64
	evictions int64
}

func (m *verifIdeal) find(k int) int {
	for i := range m.ents {
		if m.ents[i].key == k {
			return i
		}
	}
	return -1
}

func (m *verifIdeal) toFront(i int) {
	e := m.ents[i]
	copy(m.ents[1:i+1], m.ents[:i])
	m.ents[0] = e
}

func (m *verifIdeal) evict() (removed []verifItem) {
	for m.size > m.capacity {
		last := m.ents[len(m.ents)-1]
		m.ents = m.ents[:len(m.ents)-1]
		m.size -= last.size
		m.evictions++
		removed = append(removed, last.val)
	}
	return
}

func (m *verifIdeal) set(k int, v verifItem) []verifItem {
	if i := m.find(k); i >= 0 {
		m.size += int64(v.size) - m.ents[i].size
		m.ents[i].val, m.ents[i].size = v, int64(v.size)
		m.toFront(i)
	} else {
		m.ents = append([]verifEnt{{k, v, int64(v.size)}}, m.ents...)
		m.size += int64(v.size)
	}
	return m.evict()
}

// verifBuild: an arbitrary valid cache with m resident entries (pairwise distinct symbolic keys,
// symbolic sizes >= 0, sum <= capacity, symbolic eviction counter) and its ideal twin.
func verifBuild() (*LRUCache, *verifIdeal) {
	m := symx.Concrete(symx.Int("resident"), 0, symx.Param("maxResident", 2))
	capacity := symx.Int64("capacity")
	symx.Assume(capacity >= 0 && capacity < 1<<50)
	c := NewLRUCache(capacity)
	id := &verifIdeal{capacity: capacity}
	c.evictions = symx.Int64("evictions")
	symx.Assume(c.evictions >= 0 && c.evictions < 1<<50)
	id.evictions = c.evictions
	for i := 0; i < m; i++ {
		k := symx.Int("key")
		for _, e := range id.ents {
			symx.Assume(e.key != k)
		}
		v := verifItem{size: symx.Int("size"), tag: symx.Int("tag")}
		symx.Assume(v.size >= 0 && v.size < 1<<40)
		// appended at the back: entry i is less recently used than entry i-1
		ne := &entry{k, v, int64(v.size)}
		c.table[k] = c.list.PushBack(ne)
		c.size += ne.size
		id.ents = append(id.ents, verifEnt{k, v, ne.size})
		id.size += ne.size
	}
	symx.Assume(c.size <= capacity)
	return c, id
}

func verifSameItems(got []Value, want []verifItem, what string) {
	symx.Assert(len(got) == len(want), what+": number of removed values")
	for i := range want {
		symx.Assert(got[i].(verifItem) == want[i], what+": removed values in eviction order")
	}
}

func verifCompare(c *LRUCache, id *verifIdeal) {
	keys := c.Keys()
	items := c.Items()
	symx.Assert(len(keys) == len(id.ents) && len(items) == len(id.ents), "number of resident entries")
	for i, e := range id.ents {
		symx.Assert(keys[i].(int) == e.key, "Keys lists entries from most to least recently used")
		symx.Assert(items[i].Key.(int) == e.key && items[i].Value.(verifItem) == e.val, "Items lists the stored values in recency order")
	}
	l, s, cp, ev := c.Stats()
	symx.Assert(l == int64(len(id.ents)) && c.Length() == l, "Length agrees with the ideal cache")
	symx.Assert(s == id.size && c.Size() == s, "Size is the summed item size")
	symx.Assert(cp == id.capacity && c.Capacity() == cp, "Capacity")
	symx.Assert(ev == id.evictions && c.Evictions() == ev, "Evictions agrees with the ideal cache")
	symx.Assert(s <= cp, "summed size never exceeds the capacity after an operation")
	// representation invariant (so that the step composes)
	symx.Assert(len(c.table) == c.list.Len(), "table and list have the same cardinality")
	for e := c.list.Front(); e != nil; e = e.Next() {
		symx.Assert(c.table[e.Value.(*entry).key] == e, "table maps every listed key to its element")
	}
}

// C04/H1: one operation from an arbitrary valid cache against the ideal LRU.
func VerifH_LRUStep() {
	c, id := verifBuild()
	k := symx.Int("opKey")
	v := verifItem{size: symx.Int("opSize"), tag: symx.Int("opTag")}
	symx.Assume(v.size >= 0 && v.size < 1<<40)
	switch symx.Concrete(symx.Int("op"), 0, 9) {
	case 0:
		c.Set(k, v)
		id.set(k, v)
	case 1:
		got := c.SetAndGetRemoved(k, v)
		verifSameItems(got, id.set(k, v), "SetAndGetRemoved")
	case 2:
		c.SetIfAbsent(k, v)
		if i := id.find(k); i >= 0 {
			id.toFront(i)
		} else {
			id.set(k, v)
		}
	case 3:
		got, ok := c.Get(k)
		i := id.find(k)
		symx.Assert(ok == (i >= 0), "Get hit/miss")
		if i >= 0 {
			symx.Assert(got.(verifItem) == id.ents[i].val, "Get returns the stored value")
			id.toFront(i)
		} else {
			symx.Assert(got == nil, "Get miss returns nil")
		}
	case 4:
		got, ok := c.Peek(k)
		i := id.find(k)
		symx.Assert(ok == (i >= 0), "Peek hit/miss")
		if i >= 0 {
			symx.Assert(got.(verifItem) == id.ents[i].val, "Peek returns the stored value")
		}
	case 5:
		symx.Assert(c.Exist(k) == (id.find(k) >= 0), "Exist")
	case 6:
		ok := c.Delete(k)
		i := id.find(k)
		symx.Assert(ok == (i >= 0), "Delete reports whether the entry existed")
		if i >= 0 {
			id.size -= id.ents[i].size
			id.ents = append(id.ents[:i:i], id.ents[i+1:]...)
		}
	case 7:
		c.Clear()
		id.ents, id.size = nil, 0
	case 8:
		nc := symx.Int64("newCapacity")
		symx.Assume(nc >= 0 && nc < 1<<50)
		c.SetCapacity(nc)
		id.capacity = nc
		id.evict()
	case 9:
		// wide facade over one shard behaves like the shard
	}
	verifCompare(c, id)
	symx.Reach("end")
}

// C04/H1b: a second operation after the first (two-step histories from an arbitrary state).
func VerifH_LRUTwoSets() {
	c, id := verifBuild()
	var keptGot [][]Value
	var keptWant [][]verifItem
	for step := 0; step < 2; step++ {
		k := symx.Int("opKey")
		v := verifItem{size: symx.Int("opSize"), tag: symx.Int("opTag")}
		symx.Assume(v.size >= 0 && v.size < 1<<40)
		if symx.Bool("get") {
			got, ok := c.Get(k)
			i := id.find(k)
			symx.Assert(ok == (i >= 0), "Get hit/miss")
			if i >= 0 {
				symx.Assert(got.(verifItem) == id.ents[i].val, "Get returns the stored value")
				id.toFront(i)
			}
		} else {
			got := c.SetAndGetRemoved(k, v)
			want := id.set(k, v)
			verifSameItems(got, want, "SetAndGetRemoved")
			keptGot, keptWant = append(keptGot, got), append(keptWant, want)
		}
	}
	// the lists handed out are the caller's: a later operation does not change what an earlier call reported
	for i := range keptGot {
		verifSameItems(keptGot[i], keptWant[i], "SetAndGetRemoved (looked at again after the later operation)")
	}
	verifCompare(c, id)
	symx.Reach("end")
}

type verifPtrItem struct{ size int }

func (p *verifPtrItem) Size() int { return p.size }

// C04/H1c: a value object whose size has changed since it was stored is stored again under its key (the
// same pointer): the cache accounts for the size the value has now, exactly as for any other in-place
// update - Size, Length, Evictions, Keys and the removed list agree with the ideal cache.
func VerifH_LRUSameObjectResized() {
	capacity := symx.Int64("capacity")
	symx.Assume(capacity >= 0 && capacity < 1<<40)
	c := NewLRUCache(capacity)
	id := &verifIdeal{capacity: capacity}
	s1, a, b := symx.Int("otherSize"), symx.Int("sizeBefore"), symx.Int("sizeAfter")
	symx.Assume(s1 >= 0 && s1 < 1<<30 && a >= 0 && a < 1<<30 && b >= 0 && b < 1<<30)
	other := &verifPtrItem{size: s1}
	c.Set(1, other)
	id.set(1, verifItem{size: s1})
	p := &verifPtrItem{size: a}
	c.Set(2, p)
	id.set(2, verifItem{size: a})
	p.size = b
	var removed []Value
	viaRemoved := symx.Bool("setAndGetRemoved")
	if viaRemoved {
		removed = c.SetAndGetRemoved(2, p)
	} else {
		c.Set(2, p)
	}
	want := id.set(2, verifItem{size: b})
	if viaRemoved {
		symx.Assert(len(removed) == len(want), "SetAndGetRemoved: number of removed values")
	}
	keys := c.Keys()
	symx.Assert(len(keys) == len(id.ents) && c.Length() == int64(len(id.ents)), "number of resident entries")
	for i := range keys {
		if i < len(id.ents) {
			symx.Assert(keys[i].(int) == id.ents[i].key, "Keys lists entries from most to least recently used")
		}
	}
	symx.Assert(c.Size() == id.size, "Size is the summed item size")
	symx.Assert(c.Evictions() == id.evictions, "Evictions agrees with the ideal cache")
	symx.Assert(c.Size() <= capacity, "summed size never exceeds the capacity after an operation")
	symx.Reach("end")
}
