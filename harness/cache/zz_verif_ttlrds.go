package cache

import (
	"context"
	"errors"
	"time"

	"github.com/redis/go-redis/v9"

	symx "github.com/pinealctx/neptune/zzsymx"
)

// verifRedis: an in-memory model of the seven redis commands ttlRdsCache uses, with redis'
// documented expiry semantics (a key set with expiration d > 0 disappears d after the command;
// sub-millisecond expirations are rounded up to 1 ms by go-redis; 0 means no expiry; KeepTTL keeps
// the remaining time). Time is the package clock of cache (seconds) in nanoseconds.
type verifRedis struct {
	redis.Cmdable // nil: any other command would panic
	val           map[string]string
	exp           map[string]int64 // absolute expiry in ns, 0 = none
}

func newVerifRedis() *verifRedis {
	return &verifRedis{val: map[string]string{}, exp: map[string]int64{}}
}

func (r *verifRedis) nowNs() int64 { return now() * int64(time.Second) }

func (r *verifRedis) live(key string) bool {
	if _, ok := r.val[key]; !ok {
		return false
	}
	if e := r.exp[key]; e != 0 && r.nowNs() >= e {
		delete(r.val, key)
		delete(r.exp, key)
		return false
	}
	return true
}

func (r *verifRedis) expiry(d time.Duration) int64 {
	if d <= 0 {
		return 0
	}
	if d < time.Millisecond {
		d = time.Millisecond
	}
	return r.nowNs() + int64(d)
}

func verifStr(v interface{}) string {
	switch x := v.(type) {
	case []byte:
		return string(x)
	case string:
		return x
	}
	return ""
}

func (r *verifRedis) SetNX(ctx context.Context, key string, value interface{}, expiration time.Duration) *redis.BoolCmd {
	if r.live(key) {
		return redis.NewBoolResult(false, nil)
	}
	r.val[key], r.exp[key] = verifStr(value), r.expiry(expiration)
	return redis.NewBoolResult(true, nil)
}

func (r *verifRedis) Set(ctx context.Context, key string, value interface{}, expiration time.Duration) *redis.StatusCmd {
	alive := r.live(key)
	r.val[key] = verifStr(value)
	if expiration == redis.KeepTTL {
		if !alive {
			r.exp[key] = 0
		}
	} else {
		r.exp[key] = r.expiry(expiration)
	}
	return redis.NewStatusResult("OK", nil)
}

func (r *verifRedis) Get(ctx context.Context, key string) *redis.StringCmd {
	if !r.live(key) {
		return redis.NewStringResult("", redis.Nil)
	}
	return redis.NewStringResult(r.val[key], nil)
}

func (r *verifRedis) GetDel(ctx context.Context, key string) *redis.StringCmd {
	if !r.live(key) {
		return redis.NewStringResult("", redis.Nil)
	}
	v := r.val[key]
	delete(r.val, key)
	delete(r.exp, key)
	return redis.NewStringResult(v, nil)
}

func (r *verifRedis) Expire(ctx context.Context, key string, expiration time.Duration) *redis.BoolCmd {
	if !r.live(key) {
		return redis.NewBoolResult(false, nil)
	}
	if expiration <= 0 {
		delete(r.val, key) // redis deletes a key whose timeout is set to zero or less
		delete(r.exp, key)
		return redis.NewBoolResult(true, nil)
	}
	r.exp[key] = r.expiry(expiration)
	return redis.NewBoolResult(true, nil)
}

func (r *verifRedis) Del(ctx context.Context, keys ...string) *redis.IntCmd {
	n := int64(0)
	for _, k := range keys {
		if r.live(k) {
			n++
		}
		delete(r.val, k)
		delete(r.exp, k)
	}
	return redis.NewIntResult(n, nil)
}

func (r *verifRedis) Scan(ctx context.Context, cursor uint64, match string, count int64) *redis.ScanCmd {
	var keys []string
	for k := range r.val {
		if r.live(k) && len(k) >= len(match)-1 && k[:len(match)-1] == match[:len(match)-1] {
			keys = append(keys, k)
		}
	}
	return redis.NewScanCmdResult(keys, 0, nil)
}

// C05/H3: the redis-backed cache against the in-memory one on the same symbolic history, under the
// property's restrictions (positive ttls, keep-ttl only on live keys, no reading exactly on a
// deadline, below the size bound).
func VerifH_TTLRedisAgrees() {
	ctx := context.Background()
	var clock int64
	now = func() int64 { return clock }
	clock = 1000
	defTTL := int64(symx.Concrete(symx.Int("defaultTTL"), 1, symx.Param("maxTTL", 3)))
	mem := NewTTLMemCache(8, defTTL)
	rds := NewTTLRdsCache(newVerifRedis(), "p:", defTTL)
	keys := [2]string{"a", "b"}
	deadline := map[string]int64{} // reference deadlines, to stay off the deadline instants
	steps := symx.Param("steps", 3)
	for st := 0; st < steps; st++ {
		clock += int64(symx.Concrete(symx.Int("advance"), 0, symx.Param("maxAdvance", 3)))
		for _, d := range deadline {
			symx.Assume(clock != d) // the two back-ends resolve the deadline instant differently by construction
		}
		k := keys[symx.Concrete(symx.Int("which"), 0, 1)]
		switch symx.Concrete(symx.Int("op"), 0, 2) {
		case 0:
			v := []byte{symx.Uint8("val")}
			var mo, ro []SetOptFn
			ttl := defTTL
			if symx.Bool("withTTL") {
				ttl = int64(symx.Concrete(symx.Int("ttl"), 1, symx.Param("maxTTL", 3)))
				mo, ro = append(mo, WithTTL(ttl)), append(ro, WithTTL(ttl))
			}
			must := symx.Bool("mustNotExist")
			keep := symx.Bool("keepTTL")
			d, had := deadline[k]
			isLive := had && clock < d
			if keep {
				symx.Assume(isLive && !must) // keep-ttl applied to live keys only
				mo, ro = append(mo, WithKeepTTL()), append(ro, WithKeepTTL())
			}
			if must {
				mo, ro = append(mo, WithMustNotExist()), append(ro, WithMustNotExist())
			}
			e1 := mem.Set(ctx, k, v, mo...)
			e2 := rds.Set(ctx, k, append([]byte(nil), v...), ro...)
			symx.Assert(errors.Is(e1, ErrTTLKeyExists) == errors.Is(e2, ErrTTLKeyExists), "both back-ends agree on the already-exists outcome")
			symx.Assert((e1 == nil) == (e2 == nil), "both back-ends agree on Set success")
			if e1 == nil && !keep {
				deadline[k] = clock + ttl
			}
		case 1:
			var mo, ro []GetOptFn
			rm := symx.Bool("removeAfterGet")
			if rm {
				mo, ro = append(mo, WithRemoveAfterGet()), append(ro, WithRemoveAfterGet())
			}
			g1, e1 := mem.Get(ctx, k, mo...)
			g2, e2 := rds.Get(ctx, k, ro...)
			symx.Assert((e1 == nil) == (e2 == nil), "both back-ends agree on hit/miss")
			if e1 == nil && e2 == nil {
				symx.Assert(string(g1) == string(g2), "both back-ends return the same value")
			}
			if e1 == nil && rm {
				delete(deadline, k)
			}
		case 2:
			symx.Assert(mem.Remove(ctx, k) == nil && rds.Remove(ctx, k) == nil, "Remove never fails")
			delete(deadline, k)
		}
	}
	symx.Reach("end")
}
