package cache

import (
	"container/list"
	"context"
	"errors"
	"math"

	symx "github.com/pinealctx/neptune/zzsymx"
)

type verifTTLEnt struct {
	key      string
	val      byte
	deadline int64
	present  bool
}

// reference dictionary, most recently touched first (absent keys keep their slot with present=false)
type verifTTLRef struct {
	ents []verifTTLEnt
}

func (r *verifTTLRef) find(k string) int {
	for i := range r.ents {
		if r.ents[i].key == k {
			return i
		}
	}
	return -1
}

func (r *verifTTLRef) touch(i int) {
	e := r.ents[i]
	copy(r.ents[1:i+1], r.ents[:i])
	r.ents[0] = e
}

func verifDeadline(t, ttl int64) int64 {
	if ttl <= 0 {
		return math.MaxInt64
	}
	return t + ttl
}

// C05/H1: one operation from an arbitrary valid TTL cache, clock under harness control.
func VerifH_TTLStep() {
	ctx := context.Background()
	var clock int64
	now = func() int64 { return clock }
	T := symx.Int64("T")
	symx.Assume(T >= 0 && T < 1<<40)
	clock = T
	size := symx.Concrete(symx.Int("size"), 0, symx.Param("maxSize", 3))
	defTTL := symx.Int64("defaultTTL")
	symx.Assume(defTTL > -(1<<40) && defTTL < 1<<40)
	c := NewTTLMemCache(size, defTTL).(*ttlMemCache)
	ref := &verifTTLRef{}
	m := symx.Concrete(symx.Int("resident"), 0, size)
	for i := 0; i < m; i++ {
		k := symx.String("key", 1)
		for _, e := range ref.ents {
			symx.Assume(e.key != k)
		}
		v := symx.Uint8("val")
		d := symx.Int64("deadline")
		symx.Assume(d >= 0)
		node := &ttlNode{key: k, value: []byte{v}, deadline: d}
		c.eleHash[k] = c.eleList.PushBack(node) // entry i is less recently touched than entry i-1
		ref.ents = append(ref.ents, verifTTLEnt{k, v, d, true})
	}
	// the operation
	k := symx.String("opKey", 1)
	i := ref.find(k)
	if i < 0 {
		ref.ents = append(ref.ents, verifTTLEnt{key: k})
		i = len(ref.ents) - 1
	}
	e := &ref.ents[i]
	elapsed := e.present && T > e.deadline  // definitely elapsed
	boundary := e.present && T == e.deadline // the statement does not fix this instant
	live := e.present && T < e.deadline      // definitely live
	touched := false
	switch symx.Concrete(symx.Int("op"), 0, 3) {
	case 0: // Set with any combination of options
		v := symx.Uint8("opVal")
		var opts []SetOptFn
		ttl := defTTL
		if symx.Bool("withTTL") {
			ttl = symx.Int64("ttl")
			symx.Assume(ttl > -(1<<40) && ttl < 1<<40)
			opts = append(opts, WithTTL(ttl))
		}
		must, keep := symx.Bool("mustNotExist"), symx.Bool("keepTTL")
		if must {
			opts = append(opts, WithMustNotExist())
		}
		if keep {
			opts = append(opts, WithKeepTTL())
		}
		err := c.Set(ctx, k, []byte{v}, opts...)
		if must && live {
			symx.Assert(errors.Is(err, ErrTTLKeyExists), "set-if-absent on a live key reports already-exists")
		} else if !must || elapsed || !e.present {
			symx.Assert(err == nil, "Set succeeds (an elapsed key behaves like a key that was never set)")
		} else {
			symx.Assert(err == nil || errors.Is(err, ErrTTLKeyExists), "Set on the deadline instant: either outcome")
		}
		if err == nil {
			nd := verifDeadline(T, ttl)
			if keep && live {
				nd = e.deadline
			} else if keep && boundary {
				nd = -1 // either the old or a fresh deadline: not probed
			}
			e.val, e.present = v, true
			if nd >= 0 {
				e.deadline = nd
			} else {
				e.deadline = T // only "absent after the deadline" is certain below
			}
			touched = true
		}
	case 1: // Get plain / remove-after-get / update-ttl
		var opts []GetOptFn
		rm, upd := symx.Bool("removeAfterGet"), symx.Bool("updateTTL")
		ttl := defTTL
		if rm {
			opts = append(opts, WithRemoveAfterGet())
		}
		if upd {
			given := symx.Int64("newTTL")
			symx.Assume(given > -(1<<40) && given < 1<<40)
			if given != 0 {
				ttl = given
			}
			opts = append(opts, WithUpdateTTL(given))
		}
		got, err := c.Get(ctx, k, opts...)
		if live {
			symx.Assert(err == nil && len(got) == 1 && got[0] == e.val, "Get returns the value of the latest Set of a live key")
		} else if !e.present || elapsed {
			symx.Assert(errors.Is(err, ErrTTLKeyNotFound), "Get of an absent or elapsed key reports not-found")
		}
		if err == nil {
			symx.Assert(len(got) == 1 && got[0] == e.val, "a successful Get never returns another value")
			if rm {
				e.present = false
			} else {
				if upd {
					e.deadline = verifDeadline(T, ttl)
				}
				touched = true
			}
		} else if elapsed || boundary {
			e.present = false
		}
	case 2:
		symx.Assert(c.Remove(ctx, k) == nil, "Remove never fails")
		e.present = false
	case 3:
		c.Clear(ctx)
		for j := range ref.ents {
			ref.ents[j].present = false
		}
	}
	if touched {
		ref.touch(i)
	}
	// recency order (closes the induction: the next eviction takes the least recently touched key):
	// the listed keys that the reference still holds appear in the reference's touch order
	{
		var listed []string
		for el := c.eleList.Front(); el != nil; el = el.Next() {
			listed = append(listed, el.Value.(*ttlNode).key)
		}
		last := -1
		for _, r := range ref.ents {
			if !r.present {
				continue
			}
			at := -1
			for i, k := range listed {
				if k == r.key {
					at = i
				}
			}
			if at < 0 {
				continue // evicted: the retrievability rules below decide whether that was allowed
			}
			symx.Assert(at > last, "keys are kept in order of their last touch (Set or successful Get), most recent first")
			last = at
		}
	}
	// probe every key at a later clock reading
	T2 := symx.Int64("T2")
	symx.Assume(T2 >= T && T2 < 1<<41)
	clock = T2
	retrievable := 0
	morePresent := 0 // present entries (by recency) seen so far
	for j := range ref.ents {
		r := ref.ents[j]
		got, err := c.Get(ctx, r.key)
		if err == nil {
			retrievable++
			symx.Assert(r.present && len(got) == 1 && got[0] == r.val, "a hit returns the latest value of a key that was set and not removed/consumed")
			symx.Assert(T2 <= r.deadline, "a hit is never served after the time-to-live has elapsed")
		} else {
			symx.Assert(errors.Is(err, ErrTTLKeyNotFound), "a miss is reported as not-found")
			if r.present && T2 < r.deadline && morePresent < size {
				symx.Assert(false, "a live key touched more recently than `size` other keys must not have been evicted")
			}
		}
		if r.present {
			morePresent++
		}
	}
	symx.Assert(retrievable <= size, "at most `size` distinct keys are retrievable")
	symx.Assert(c.eleList.Len() <= size || size == 0, "list never longer than size")
	_ = list.New
	symx.Reach("end")
}

// C05/H2: two goroutines race remove-after-get on one live key: at most one of them succeeds.
func VerifH_TTLRemoveAfterGetRace() {
	ctx := context.Background()
	now = func() int64 { return 100 }
	c := NewTTLMemCache(2, 0)
	v := symx.Uint8("val")
	symx.Assert(c.Set(ctx, "k", []byte{v}) == nil, "Set")
	var e1, e2 error
	var g1, g2 []byte
	symx.Go("A", func() { g1, e1 = c.Get(ctx, "k", WithRemoveAfterGet()) })
	symx.Go("B", func() { g2, e2 = c.Get(ctx, "k", WithRemoveAfterGet()) })
	symx.WaitQuiescent()
	symx.Assert(!(e1 == nil && e2 == nil), "remove-after-get succeeds for at most one caller")
	symx.Assert(e1 == nil || e2 == nil, "and for at least one when the key is live")
	if e1 == nil {
		symx.Assert(len(g1) == 1 && g1[0] == v, "the winner gets the value")
	}
	if e2 == nil {
		symx.Assert(len(g2) == 1 && g2[0] == v, "the winner gets the value")
	}
	_, e3 := c.Get(ctx, "k")
	symx.Assert(e3 != nil, "consumed afterwards")
	symx.Reach("end")
}

// C05/H2b: two callers racing on one key, every interleaving, race monitor: two set-if-absent on a key
// that was never set (or whose ttl has elapsed): exactly one succeeds and its value is the one served
// afterwards; a set-if-absent racing a remove-after-get of a live key: the outcomes are those of one of
// the two orders.
func VerifH_TTLSetRaces() {
	ctx := context.Background()
	now = func() int64 { return 100 }
	c := NewTTLMemCache(2, 0)
	va, vb := symx.Uint8("va"), symx.Uint8("vb")
	elapsed := symx.Bool("keyElapsed")
	if elapsed {
		now = func() int64 { return 10 }
		symx.Assert(c.Set(ctx, "k", []byte{0}, WithTTL(5)) == nil, "Set")
		now = func() int64 { return 100 } // deadline 15 has passed, the node is still in the table
	}
	var e1, e2 error
	var g2 []byte
	scenario := symx.Concrete(symx.Int("scenario"), 0, 1)
	if scenario == 1 {
		symx.Assume(!elapsed)
		symx.Assert(c.Set(ctx, "k", []byte{7}) == nil, "Set")
	}
	symx.Go("A", func() { e1 = c.Set(ctx, "k", []byte{va}, WithMustNotExist()) })
	symx.Go("B", func() {
		if scenario == 0 {
			e2 = c.Set(ctx, "k", []byte{vb}, WithMustNotExist())
		} else {
			g2, e2 = c.Get(ctx, "k", WithRemoveAfterGet())
		}
	})
	symx.WaitQuiescent()
	symx.Assert(symx.OthersDone(), "both callers return")
	g, e3 := c.Get(ctx, "k")
	if scenario == 0 {
		symx.Assert((e1 == nil) != (e2 == nil), "of two racing set-if-absent on an absent key exactly one succeeds")
		symx.Assert(e3 == nil && len(g) == 1, "and the key is served afterwards")
		if e3 == nil && len(g) == 1 {
			if e1 == nil {
				symx.Assert(g[0] == va, "with the winner's value")
			} else {
				symx.Assert(g[0] == vb, "with the winner's value")
			}
		}
	} else {
		// order A;B: A refused (key live), B consumes 7, key gone. order B;A: B consumes 7, A succeeds, key = va.
		symx.Assert(e2 == nil && len(g2) == 1 && g2[0] == 7, "the one-shot read gets the live value in either order")
		if e1 == nil {
			symx.Assert(e3 == nil && len(g) == 1 && g[0] == va, "set-if-absent after the consuming read: its value is served")
		} else {
			symx.Assert(e3 != nil, "set-if-absent refused while the key was live: the key is consumed afterwards")
		}
	}
	symx.Reach("end")
}

// C05/H1c: stored values are values of their own: two keys set from one byte slice, then one of them
// overwritten while live (plain or keep-ttl, shorter or equally long value): the other key and a slice an
// earlier Get returned still read the bytes of their own latest Set.
func VerifH_TTLValuesIndependent() {
	ctx := context.Background()
	now = func() int64 { return 100 }
	c := NewTTLMemCache(4, 0)
	buf := symx.Bytes("shared", 2)
	orig := append([]byte(nil), buf...)
	symx.Assert(c.Set(ctx, "a", buf) == nil && c.Set(ctx, "b", buf) == nil, "Set")
	earlier, err := c.Get(ctx, "a")
	symx.Assert(err == nil && len(earlier) == 2, "Get")
	nv := symx.Bytes("newValue", symx.Concrete(symx.Int("newLen"), 1, 2))
	if symx.Bool("keepTTL") {
		symx.Assert(c.Set(ctx, "a", nv, WithKeepTTL()) == nil, "overwrite")
	} else {
		symx.Assert(c.Set(ctx, "a", nv) == nil, "overwrite")
	}
	gb, err := c.Get(ctx, "b")
	symx.Assert(err == nil && len(gb) == 2 && gb[0] == orig[0] && gb[1] == orig[1], "a successful Get returns the value of the latest Set of that key")
	ga, err := c.Get(ctx, "a")
	symx.Assert(err == nil && len(ga) == len(nv), "the overwritten key returns its new value")
	for i := range nv {
		if i < len(ga) {
			symx.Assert(ga[i] == nv[i], "the overwritten key returns its new value")
		}
	}
	symx.Assert(len(earlier) == 2 && earlier[0] == orig[0] && earlier[1] == orig[1], "what an earlier Get returned is not changed by a later Set")
	symx.Reach("end")
}
