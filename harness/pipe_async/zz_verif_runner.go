package async

import (
	"context"
	"sync"
	"time"

	symx "github.com/pinealctx/neptune/zzsymx"
)

type verifRCtx struct {
	done chan struct{}
	err  error
}

func verifNewRCtx() *verifRCtx                         { return &verifRCtx{done: make(chan struct{})} }
func (c *verifRCtx) Deadline() (time.Time, bool)       { return time.Time{}, false }
func (c *verifRCtx) Done() <-chan struct{}             { return c.done }
func (c *verifRCtx) Err() error                        { return c.err }
func (c *verifRCtx) Value(key interface{}) interface{} { return nil }
func (c *verifRCtx) cancel()                           { c.err = context.Canceled; close(c.done) }

type verifRunLog struct {
	running int64
	runs    [4]int
	order   []int
}

type verifProc struct {
	id   int
	body func(id int) (interface{}, error)
}

func (p verifProc) Do(ctx context.Context) (interface{}, error) { return p.body(p.id) }

// C14/H2 (runner queue, delegate and Proc paths): same program as the single line.
func VerifH_RunnerProgram() {
	wg := &sync.WaitGroup{}
	r := NewRunnerQ(WithQSize(symx.Concrete(symx.Int("qSize"), 0, 2)), WithWaitGroup(wg))
	r.Run()
	r.Run() // idempotent
	log := &verifRunLog{}
	gate := make(chan struct{})
	body := func(id int) (interface{}, error) {
		symx.YieldOn(log)
		n := symx.GhostAdd(&log.running, 1)
		symx.Assert(n == 1, "calls on one lane never overlap in time")
		log.runs[id]++
		log.order = append(log.order, id)
		if id == 0 {
			<-gate
		}
		symx.YieldOn(log)
		symx.GhostAdd(&log.running, -1)
		return id * 10, nil
	}
	useProc := symx.Bool("procInterface")
	call := func(ctx context.Context, id int) (interface{}, error) {
		if useProc {
			return r.AsyncProc(ctx, verifProc{id, body})
		}
		return r.AsyncDelegate(ctx, func(context.Context) (interface{}, error) { return body(id) })
	}
	ctxA, ctxB := verifNewRCtx(), verifNewRCtx()
	var rA, rB, rC interface{}
	var eA, eB, eC error
	tA := symx.Go("callerA", func() { rA, eA = call(ctxA, 0) })
	symx.WaitQuiescent()
	tB := symx.Go("callerB", func() { rB, eB = call(ctxB, 1) })
	symx.WaitQuiescent()
	cancelB := symx.Bool("cancelB")
	if cancelB {
		ctxB.cancel()
		symx.WaitQuiescent()
		symx.MustFinish(tB, "a caller whose context ended returns")
		symx.Assert(eB == context.Canceled && rB == nil, "with its own context's error")
	}
	stopEarly := symx.Bool("stopBeforeGate")
	if stopEarly {
		r.Stop()
		tC := symx.Go("callerC", func() { rC, eC = call(verifNewRCtx(), 2) })
		symx.WaitQuiescent()
		symx.MustFinish(tC, "a call after Stop returns at once")
		symx.Assert(eC == ErrClosed && rC == nil && log.runs[2] == 0, "after Stop no new call is accepted")
	}
	close(gate)
	symx.WaitQuiescent()
	symx.MustFinish(tA, "the first caller gets its result")
	symx.Assert(eA == nil && rA.(int) == 0, "caller A receives the result of its own call")
	symx.Assert(log.runs[0] == 1, "an accepted call runs once")
	if !cancelB {
		symx.MustFinish(tB, "a call accepted before Stop still completes")
		symx.Assert(eB == nil && rB.(int) == 10, "caller B receives the result of its own call, not another's")
		symx.Assert(len(log.order) == 2 && log.order[0] == 0 && log.order[1] == 1, "calls start in the order they were accepted")
	} else {
		symx.Assert(log.runs[1] == 0, "a call whose context ended before its turn is not executed")
	}
	if !stopEarly {
		r.Stop()
	}
	r.Stop()
	tW := symx.Go("waiter", func() { wg.Wait(); r.WaitStop() })
	symx.WaitQuiescent()
	symx.MustFinish(tW, "after Stop the lane goroutine terminates")
	symx.Reach("end")
}

// C14/H2 (proc channel): serial execution, own results, Stop refuses new calls and ends the lane.
func VerifH_ProcChanProgram() {
	wg := &sync.WaitGroup{}
	p := NewProcChan(WithQSize(2), WithWaitGroup(wg))
	p.Run()
	log := &verifRunLog{}
	body := func(id int) (interface{}, error) {
		symx.YieldOn(log)
		n := symx.GhostAdd(&log.running, 1)
		symx.Assert(n == 1, "calls on one lane never overlap in time")
		log.runs[id]++
		symx.YieldOn(log)
		symx.GhostAdd(&log.running, -1)
		return id * 10, nil
	}
	var rA, rB, rC interface{}
	var eA, eB, eC error
	tA := symx.Go("callerA", func() { rA, eA = p.AsyncProc(verifNewRCtx(), verifProc{0, body}) })
	tB := symx.Go("callerB", func() { rB, eB = p.AsyncProc(verifNewRCtx(), verifProc{1, body}) })
	symx.WaitQuiescent()
	symx.MustFinish(tA, "caller A returns")
	symx.MustFinish(tB, "caller B returns")
	symx.Assert(eA == nil && rA.(int) == 0 && eB == nil && rB.(int) == 10, "each caller receives the result of its own call")
	symx.Assert(log.runs[0] == 1 && log.runs[1] == 1, "accepted calls run exactly once")
	p.Stop()
	p.Stop()
	tC := symx.Go("callerC", func() { rC, eC = p.AsyncProc(verifNewRCtx(), verifProc{2, body}) })
	symx.WaitQuiescent()
	symx.MustFinish(tC, "a call after Stop returns at once")
	symx.Assert(eC == ErrClosed && rC == nil, "after Stop no new call is accepted")
	symx.Assert(log.runs[2] == 0, "and none is executed")
	tW := symx.Go("waiter", func() { wg.Wait() })
	symx.WaitQuiescent()
	symx.MustFinish(tW, "after Stop the lane goroutine terminates")
	symx.Reach("end")
}

// C14/H2 (proc channel, backlog): a gated call keeps the lane busy, a second call queues behind it and
// its caller's context ends, a third call is issued afterwards; then the gate opens.
func VerifH_ProcChanBacklog() {
	p := NewProcChan(WithQSize(2))
	p.Run()
	log := &verifRunLog{}
	gate := make(chan struct{})
	body := func(id int) (interface{}, error) {
		symx.YieldOn(log)
		n := symx.GhostAdd(&log.running, 1)
		symx.Assert(n == 1, "calls on one lane never overlap in time")
		log.runs[id]++
		log.order = append(log.order, id)
		if id == 0 {
			<-gate
		}
		symx.YieldOn(log)
		symx.GhostAdd(&log.running, -1)
		return id * 10, nil
	}
	ctxB := verifNewRCtx()
	var rA, rB, rD interface{}
	var eA, eB, eD error
	tA := symx.Go("callerA", func() { rA, eA = p.AsyncProc(verifNewRCtx(), verifProc{0, body}) })
	symx.WaitQuiescent()
	tB := symx.Go("callerB", func() { rB, eB = p.AsyncProc(ctxB, verifProc{1, body}) })
	symx.WaitQuiescent()
	symx.Assert(symx.Blocked(tA) && symx.Blocked(tB), "the gated call runs, the second waits behind it")
	ctxB.cancel()
	symx.WaitQuiescent()
	symx.MustFinish(tB, "a caller whose context ended returns")
	symx.Assert(eB == context.Canceled && rB == nil, "with its own context's error")
	tD := symx.Go("callerD", func() { rD, eD = p.AsyncProc(verifNewRCtx(), verifProc{2, body}) })
	symx.WaitQuiescent()
	close(gate)
	symx.WaitQuiescent()
	symx.MustFinish(tA, "the first caller gets its result")
	symx.MustFinish(tD, "the later caller gets its result")
	symx.Assert(eA == nil && rA.(int) == 0, "caller A receives the result of its own call")
	symx.Assert(eD == nil && rD.(int) == 20, "caller D receives the result of its own call, not another's")
	symx.Assert(log.runs[0] == 1 && log.runs[2] == 1 && log.runs[1] <= 1, "every accepted call is executed at most once")
	if log.runs[1] == 1 {
		symx.Assert(len(log.order) == 3 && log.order[1] == 1 && log.order[2] == 2, "calls start in the order they were accepted")
	}
	p.Stop()
	symx.WaitQuiescent()
	symx.Reach("end")
}

// C14/H2c: a call made with a context that has already ended, on an idle lane and behind a busy call, on
// the runner queue (delegate / Proc) and on the proc channel - every interleaving of caller and lane and
// every choice among ready select cases: the caller gets its own context's error and no result, or (had
// the lane run the call) its own result; never a nil error without its result.
func VerifH_DeadContextCall() {
	wg := &sync.WaitGroup{}
	kind := symx.Concrete(symx.Int("kind"), 0, 2) // 0 delegate, 1 Proc on the runner queue, 2 proc channel
	var r *RunnerQ
	var p *ProcChan
	if kind == 2 {
		p = NewProcChan(WithQSize(2), WithWaitGroup(wg))
		p.Run()
	} else {
		r = NewRunnerQ(WithQSize(symx.Concrete(symx.Int("qSize"), 0, 2)), WithWaitGroup(wg))
		r.Run()
	}
	log := &verifRunLog{}
	gate := make(chan struct{})
	busy := symx.Bool("behindBusyCall")
	body := func(id int) (interface{}, error) {
		symx.YieldOn(log)
		n := symx.GhostAdd(&log.running, 1)
		symx.Assert(n == 1, "calls on one lane never overlap in time")
		log.runs[id]++
		if id == 0 {
			<-gate
		}
		symx.YieldOn(log)
		symx.GhostAdd(&log.running, -1)
		return 100 + id, nil
	}
	call := func(ctx context.Context, id int) (interface{}, error) {
		switch kind {
		case 0:
			return r.AsyncDelegate(ctx, func(context.Context) (interface{}, error) { return body(id) })
		case 1:
			return r.AsyncProc(ctx, verifProc{id, body})
		}
		return p.AsyncProc(ctx, verifProc{id, body})
	}
	var rA, rD interface{}
	var eA, eD error
	var tA symx.ThreadID
	if busy {
		tA = symx.Go("callerA", func() { rA, eA = call(verifNewRCtx(), 0) })
		symx.WaitQuiescent()
	}
	dead := verifNewRCtx()
	dead.cancel()
	tD := symx.Go("deadCaller", func() { rD, eD = call(dead, 1) })
	symx.WaitQuiescent()
	symx.MustFinish(tD, "a caller whose context has ended returns without waiting for the lane")
	if busy {
		close(gate)
		symx.WaitQuiescent()
		symx.MustFinish(tA, "the busy call completes")
		symx.Assert(eA == nil && rA.(int) == 100, "caller A receives the result of its own call")
	}
	if eD == nil {
		symx.Assert(log.runs[1] == 1 && rD != nil && rD.(int) == 101, "a nil error comes with the result of the caller's own call")
	} else {
		symx.Assert(eD == context.Canceled && rD == nil, "otherwise the caller gets its own context's error and no result")
	}
	symx.Assert(log.runs[1] <= 1, "at most once")
	if kind == 2 {
		p.Stop()
	} else {
		r.Stop()
	}
	tW := symx.Go("waiter", func() { wg.Wait() })
	symx.WaitQuiescent()
	symx.MustFinish(tW, "after Stop the lane goroutine terminates")
	symx.Reach("end")
}

// C14/H2e (runner queue, placements of Stop): Stop issued by a call running on the lane with another call
// already queued behind it, and Stop issued before Run: Stop returns, both accepted calls complete with
// their own results, a later call is refused, the lane goroutine terminates.
func VerifH_RunnerStopInside() {
	wg := &sync.WaitGroup{}
	qSize := symx.Concrete(symx.Int("qSize"), 0, 2)
	r := NewRunnerQ(WithQSize(qSize), WithWaitGroup(wg))
	beforeRun := symx.Bool("stopBeforeRun")
	symx.Assume(!beforeRun || qSize != 1) // two calls must fit into the queue of a lane that does not run yet
	if !beforeRun {
		r.Run()
	}
	var ran [3]int
	gate := make(chan struct{})
	body := func(id int) (interface{}, error) {
		ran[id]++
		if id == 0 && !beforeRun {
			<-gate
			r.Stop()
		}
		return 100 + id, nil
	}
	useProc := symx.Bool("procInterface")
	call := func(ctx context.Context, id int) (interface{}, error) {
		if useProc {
			return r.AsyncProc(ctx, verifProc{id, body})
		}
		return r.AsyncDelegate(ctx, func(context.Context) (interface{}, error) { return body(id) })
	}
	var res [3]interface{}
	var e [3]error
	tA := symx.Go("callerA", func() { res[0], e[0] = call(verifNewRCtx(), 0) })
	symx.WaitQuiescent()
	tB := symx.Go("callerB", func() { res[1], e[1] = call(verifNewRCtx(), 1) })
	symx.WaitQuiescent()
	symx.Assert(symx.Blocked(tA) && symx.Blocked(tB), "both calls are accepted and wait (lane busy or not yet running)")
	if beforeRun {
		tS := symx.Go("stopper", func() { r.Stop() })
		symx.WaitQuiescent()
		symx.MustFinish(tS, "Stop returns without the lane having run")
		r.Run()
	} else {
		close(gate)
	}
	symx.WaitQuiescent()
	symx.MustFinish(tA, "a call accepted before Stop completes")
	symx.MustFinish(tB, "a call accepted before Stop completes")
	symx.Assert(e[0] == nil && res[0].(int) == 100 && ran[0] == 1, "caller A receives the result of its own call, run once")
	symx.Assert(e[1] == nil && res[1].(int) == 101 && ran[1] == 1, "caller B receives the result of its own call, run once")
	tC := symx.Go("late", func() { res[2], e[2] = call(verifNewRCtx(), 2) })
	symx.WaitQuiescent()
	symx.MustFinish(tC, "a call after Stop returns at once")
	symx.Assert(e[2] == ErrClosed && ran[2] == 0, "after Stop no new call is accepted")
	tW := symx.Go("waiter", func() { wg.Wait(); r.WaitStop() })
	symx.WaitQuiescent()
	symx.MustFinish(tW, "after Stop the lane goroutine terminates")
	symx.Reach("end")
}
