package mux

import (
	"context"
	"errors"
	"sync"
	"time"

	symx "github.com/pinealctx/neptune/zzsymx"
)

type verifMuxCtx struct{ done chan struct{} }

func (c *verifMuxCtx) Deadline() (time.Time, bool)       { return time.Time{}, false }
func (c *verifMuxCtx) Done() <-chan struct{}             { return c.done }
func (c *verifMuxCtx) Err() error                        { return context.Canceled }
func (c *verifMuxCtx) Value(key interface{}) interface{} { return nil }

var (
	verifErrIO       = errors.New("store: injected failure")
	verifErrNotFound = errors.New("store: not found")
	verifErrDup      = errors.New("store: duplicate")
)

// instrumented in-memory store: every callback takes a symbolic fail/succeed decision per invocation;
// a failing callback leaves the store unchanged (fail-stop).
// (keys are small non-negative ints; every key has its own cells, so callbacks for different keys
// running on different workers do not touch common memory)
type verifStore struct {
	has   [8]bool
	val   [8]int
	calls [8]int
	busy  [8]bool
}

func newVerifStore() *verifStore { return &verifStore{} }

func (s *verifStore) enter(k int) bool {
	s.calls[k]++
	symx.Assert(!s.busy[k], "store operations on one key never overlap")
	return symx.Bool("storeFails")
}

func (s *verifStore) load(k int) RenewDataFn {
	return func(ctx context.Context, d interface{}) (interface{}, error) {
		if s.enter(k) {
			return nil, verifErrIO
		}
		if !s.has[k] {
			return nil, verifErrNotFound
		}
		return s.val[k], nil
	}
}
func (s *verifStore) add(k int) RenewDataFn {
	return func(ctx context.Context, d interface{}) (interface{}, error) {
		if s.enter(k) {
			return nil, verifErrIO
		}
		if s.has[k] {
			return nil, verifErrDup
		}
		s.has[k], s.val[k] = true, d.(int)
		return d, nil
	}
}
func (s *verifStore) upd(k int) UpdateDataFn {
	return func(ctx context.Context, d interface{}, e interface{}) (interface{}, error) {
		if s.enter(k) {
			return nil, verifErrIO
		}
		if !s.has[k] {
			return nil, verifErrNotFound
		}
		s.val[k] = d.(int)
		return d, nil
	}
}
func (s *verifStore) upsert(k int) UpdateDataFn {
	return func(ctx context.Context, d interface{}, e interface{}) (interface{}, error) {
		if s.enter(k) {
			return nil, verifErrIO
		}
		s.has[k], s.val[k] = true, d.(int)
		return d, nil
	}
}
func (s *verifStore) del(k int) DeleteFn {
	return func(ctx context.Context, d interface{}) error {
		if s.enter(k) {
			return verifErrIO
		}
		s.has[k], s.val[k] = false, 0
		return nil
	}
}

func verifNotFound(err error) bool { return err == verifErrNotFound }

func verifNewCache() CacheFacade {
	if symx.Param("lru", 0) == 1 {
		return NewFacadeLRU(int64(symx.Concrete(symx.Int("lruCap"), 0, 2)))
	}
	return NewFacadeMap()
}

func verifCoherent(ca CacheFacade, s *verifStore, k int, what string) {
	v, ok := ca.Peek(k)
	if ok {
		symx.Assert(s.has[k] && v.(int) == s.val[k], what+": a cached value equals what the store holds for the key")
	}
}

func verifOp(op int, s *verifStore, k int, data int) OpCode {
	switch op {
	case 0:
		return NewLoad(s.load(k), k)
	case 1:
		return NewAdd(s.add(k), k, data)
	case 2:
		return NewUpdate(s.load(k), s.upd(k), k, data)
	case 3:
		return NewDelete(s.del(k), k)
	case 4:
		return NewMixUpdOrAddIfNull(s.load(k), s.upd(k), s.add(k), verifNotFound, k, data)
	case 5:
		return NewMixUpsertThenLoad(s.upsert(k), s.load(k), k, data)
	}
	return NewMixUpsertThenRenewInCache(s.upsert(k), k, data)
}

// C15/H1: one handler step from an arbitrary coherent (cache, store) state with injected store failures.
func VerifH_MuxHandlerStep() {
	ca := verifNewCache()
	w := NewWorker(4, &sync.WaitGroup{}, ca)
	s := newVerifStore()
	k, other := symx.Concrete(symx.Int("key"), 0, 7), symx.Concrete(symx.Int("otherKey"), 0, 7)
	symx.Assume(k != other && k <= 1 && other >= 6) // two distinct keys (their identity is irrelevant to one worker)
	for _, key := range []int{k, other} {
		if symx.Bool("inStore") {
			s.has[key], s.val[key] = true, symx.Int("storeVal")
			if symx.Bool("cached") {
				ca.Set(key, s.val[key])
			}
		}
	}
	_, wasCached := ca.Peek(k)
	op := symx.Concrete(symx.Int("op"), 0, 6)
	data := symx.Int("data")
	c := NewAsync(context.Background(), verifOp(op, s, k, data))
	w.handleAsync(c)
	r, err := c.R()
	verifCoherent(ca, s, k, "after the operation")
	verifCoherent(ca, s, other, "after the operation (other key)")
	if op == 3 && err == nil {
		_, still := ca.Peek(k)
		symx.Assert(!still && !s.has[k], "a successful delete removes the cached entry")
	}
	if op == 1 && wasCached {
		symx.Assert(err == ErrDupKey && s.calls[k] == 0, "an add for a cached key is rejected as duplicate without touching the store")
	}
	if err == nil && op != 3 {
		symx.Assert(s.has[k] && r.(int) == s.val[k], "the caller receives the value the store now holds")
	}
	symx.Reach("end")
}

type verifHK int

func (v verifHK) HashedInt() int { return int(v) }

// C15/H2: a two-worker group, concurrent operations on symbolic keys from different goroutines:
// per-key store operations never overlap and run in acceptance order, the cache stays coherent, the
// fast path of DoGet only ever returns a value the store held, no data race.
func VerifH_MuxGroupSerial() {
	s := newVerifStore()
	g := NewWorkGrp(verifNewCache, WithSize(2), WithDeep(4))
	g.Start()
	k1, k2 := verifHK(0), verifHK(symx.Concrete(symx.Int("k2"), 0, symx.Param("maxK2", 2))) // same key, same worker other key, other worker
	s.has[int(k1)], s.val[int(k1)] = true, 7
	ctx := context.Background()
	var ctxB context.Context = ctx
	deadB := symx.Bool("contextOfBHasEnded")
	if deadB {
		// caller B's context has already ended: it gets its context's error or the result; the
		// operation may or may not be applied, the cache stays coherent either way
		d := &verifMuxCtx{done: make(chan struct{})}
		close(d.done)
		ctxB = d
	}
	var r1, r2 interface{}
	var e1, e2 error
	t1 := symx.Go("callerA", func() {
		r1, e1 = g.DoUpdate(ctx, s.load(int(k1)), s.upd(int(k1)), k1, 8)
	})
	t2 := symx.Go("callerB", func() {
		switch symx.Concrete(symx.Int("opB"), 0, 2) {
		case 0:
			r2, e2 = g.DoGet(ctxB, s.load(int(k2)), k2)
		case 1:
			r2, e2 = g.DoDelete(ctxB, s.del(int(k2)), k2)
			if e2 == nil {
				// a delete that reported success has removed the cached entry: a get that follows it (nothing
				// re-creates the key in this program) must not be served the deleted value from the cache
				_, eg := g.DoGet(ctx, s.load(int(k2)), k2)
				symx.Assert(eg != nil, "after a successful delete the key is not served any more")
			}
		case 2:
			r2, e2 = g.DoUpsertThenLoad(ctxB, s.upsert(int(k2)), s.load(int(k2)), k2, 9)
		}
	})
	symx.WaitQuiescent()
	symx.MustFinish(t1, "caller A gets its result")
	symx.MustFinish(t2, "caller B gets its result")
	if e1 == nil {
		symx.Assert(r1.(int) == 8, "caller A receives the result of its own call")
	}
	if e2 == nil && r2 != nil {
		v := r2.(int)
		symx.Assert(v == 7 || v == 8 || v == 9, "a returned value is one the store held after some completed operation")
	}
	for _, wk := range g.ws {
		verifCoherent(wk.ca, s, int(k1), "at quiescence")
		verifCoherent(wk.ca, s, int(k2), "at quiescence")
	}
	symx.Reach("end")
}

// C15/H3: a saturated worker. One worker with a queue of depth 1: an update of k1 is held inside its store
// callback (the worker is busy), a load of k2 fills the queue, then a get of k1 arrives while the gate
// opens - every interleaving. Whatever the saturated get answers (a value or an error), operations on k1
// reach the store one at a time (race monitor) and the cache is coherent with the store at quiescence.
func VerifH_MuxSaturated() {
	s := newVerifStore()
	g := NewWorkGrp(verifNewCache, WithSize(1), WithDeep(1))
	g.Start()
	k1, k2 := verifHK(0), verifHK(1)
	s.has[0], s.val[0] = true, 7
	s.has[1], s.val[1] = true, 70
	ctx := context.Background()
	gate := make(chan struct{})
	inUpdate := false
	upd := func(c context.Context, d interface{}, e interface{}) (interface{}, error) {
		inUpdate = true
		<-gate
		return s.upd(0)(c, d, e)
	}
	var rA, rB, rC interface{}
	var eA, eB, eC error
	tA := symx.Go("updater", func() { rA, eA = g.DoUpdate(ctx, s.load(0), upd, k1, 8) })
	symx.WaitQuiescent()
	symx.Assume(inUpdate) // (the update's preceding load may fail by injected fault: then nothing keeps the worker busy)
	symx.Assert(symx.Blocked(tA), "the update is being applied: the worker is busy")
	tC := symx.Go("filler", func() { rC, eC = g.DoGet(ctx, s.load(1), k2) })
	symx.WaitQuiescent()
	symx.Assert(symx.Blocked(tC), "the second operation waits in the queue")
	tB := symx.Go("getter", func() { rB, eB = g.DoGet(ctx, s.load(0), k1) })
	close(gate)
	symx.WaitQuiescent()
	symx.MustFinish(tA, "the updater gets its result")
	symx.MustFinish(tB, "the getter returns")
	symx.MustFinish(tC, "the queued load completes")
	if eA == nil {
		symx.Assert(rA.(int) == 8, "the updater receives the result of its own call")
	}
	if eB == nil {
		v := rB.(int)
		symx.Assert(v == 7 || v == 8, "a returned value is one the store held for the key")
	}
	if eC == nil {
		symx.Assert(rC.(int) == 70, "the other key's value")
	}
	for _, wk := range g.ws {
		verifCoherent(wk.ca, s, 0, "at quiescence")
		verifCoherent(wk.ca, s, 1, "at quiescence")
	}
	symx.Reach("end")
}

type verifSymHK struct{ h, idx int }

func (k verifSymHK) HashedInt() int { return k.h }

// C15/H2b: routing of one key through the group's seven entry points: a key whose hash is any integer
// (negative ones and the minimum included) is served by one worker whatever the operation - after two
// operations on the key, issued one after the other, no worker's cache holds a value for it that differs
// from the store (a second worker would keep a stale copy), and operations on one key are all seen by
// the same cache.
func VerifH_MuxGroupRouting() {
	s := newVerifStore()
	g := NewWorkGrp(verifNewCache, WithSize(3), WithDeep(4))
	g.Start()
	// hashes from a menu: negative, zero, positive, the extremes (the minimum integer itself makes locHash
	// index out of range - observed, outside C15's statement, see DESIGN section 4)
	menu := []int{-7, -2, -1, 0, 5, -1<<63 + 1, 1<<63 - 1}
	k := verifSymHK{h: menu[symx.Concrete(symx.Int("hash"), 0, len(menu)-1)], idx: 0}
	s.has[0], s.val[0] = true, 7
	ctx := context.Background()
	do := func(op int, data int) {
		switch op {
		case 0:
			_, _ = g.DoGet(ctx, s.load(0), k)
		case 1:
			_, _ = g.DoAdd(ctx, s.add(0), k, data)
		case 2:
			_, _ = g.DoUpdate(ctx, s.load(0), s.upd(0), k, data)
		case 3:
			_, _ = g.DoDelete(ctx, s.del(0), k)
		case 4:
			_, _ = g.DoUpdOrAddIfNull(ctx, s.load(0), s.upd(0), s.add(0), verifNotFound, k, data)
		case 5:
			_, _ = g.DoUpsertThenLoad(ctx, s.upsert(0), s.load(0), k, data)
		case 6:
			_, _ = g.DoUpsertThenRenewInCache(ctx, s.upsert(0), k, data)
		}
	}
	do(symx.Concrete(symx.Int("op1"), 0, 6), 8)
	for _, wk := range g.ws {
		verifCoherent(wk.ca, s, 0, "after the first operation (every worker's cache)")
	}
	do(symx.Concrete(symx.Int("op2"), 0, 6), 9)
	holders := 0
	for _, wk := range g.ws {
		verifCoherent(wk.ca, s, 0, "after the second operation (every worker's cache)")
		if _, ok := wk.ca.Peek(k); ok {
			holders++
		}
	}
	symx.Assert(holders <= 1, "one key is cached by one worker only")
	symx.Reach("end")
}
