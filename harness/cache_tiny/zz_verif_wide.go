package tiny

import (
	"github.com/pinealctx/neptune/remap"

	symx "github.com/pinealctx/neptune/zzsymx"
)

// C04/H2 + C17/H3 for cache/tiny: a symbolic history on the wide entry-counting LRU equals the
// same history on per-shard ideal caches (modulo or xxhash routing, int keys), with per-shard
// capacity capacity/shards+1.
func VerifH_TinyWideLRUHistory() {
	p := symx.Param("shards", 2)
	capacity := symx.Int64("capacity")
	symx.Assume(capacity >= 0 && capacity < 1<<40)
	var w LRU
	useX := symx.Param("xhash", 0) == 1
	if useX {
		w = NewWideXHashLRU(capacity, remap.WithPrime(uint64(p)))
	} else {
		w = NeWideLRU(capacity, remap.WithPrime(uint64(p)))
	}
	ww := w.(*WideLRUCache)
	symx.Assert(len(ww.ls) == p, "one shard cache per shard")
	ids := make([]*verifIdeal, p)
	for i := range ids {
		ids[i] = &verifIdeal{capacity: capacity/int64(p) + 1}
		symx.Assert(ww.ls[i].Capacity() == ids[i].capacity, "per-shard capacity is capacity/shards+1")
	}
	nk := symx.Param("keys", 2)
	keys := make([]int, nk)
	for i := range keys {
		keys[i] = symx.Int("k")
	}
	steps := symx.Param("steps", 3)
	for s := 0; s < steps; s++ {
		k := keys[symx.Concrete(symx.Int("which"), 0, nk-1)]
		var shard int
		if useX {
			shard = ww.rehash.XHashIndex(k)
		} else {
			shard = int(uint64(k) % uint64(p))
		}
		symx.Assert(shard >= 0 && shard < p, "shard index in range")
		id := ids[shard]
		switch symx.Concrete(symx.Int("op"), 0, 4) {
		case 0:
			v := verifItem{size: 1, tag: symx.Int("tag")}
			w.Set(k, v)
			id.set(k, v)
		case 1:
			got, ok := w.Get(k)
			i := id.find(k)
			symx.Assert(ok == (i >= 0), "Get hit/miss as the shard's ideal cache")
			if i >= 0 {
				symx.Assert(got.(verifItem) == id.ents[i].val, "Get value")
				id.toFront(i)
			}
		case 2:
			got, ok := w.Peek(k)
			i := id.find(k)
			symx.Assert(ok == (i >= 0), "Peek hit/miss")
			if i >= 0 {
				symx.Assert(got.(verifItem) == id.ents[i].val, "Peek value")
			}
		case 3:
			symx.Assert(w.Exist(k) == (id.find(k) >= 0), "Exist")
		case 4:
			ok := w.Delete(k)
			i := id.find(k)
			symx.Assert(ok == (i >= 0), "Delete result")
			if i >= 0 {
				id.size -= id.ents[i].size
				id.ents = append(id.ents[:i:i], id.ents[i+1:]...)
			}
		}
	}
	for i := range ids {
		verifCompare(ww.ls[i], ids[i])
	}
	symx.Reach("end")
}
