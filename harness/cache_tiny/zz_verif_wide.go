package tiny

import (
	"github.com/pinealctx/neptune/remap"

	symx "github.com/pinealctx/neptune/zzsymx"
)

// C04/H2 + C17/H3 for cache/tiny: a symbolic history on the wide entry-counting LRU equals the
// same history on per-shard ideal caches (modulo or xxhash routing, int keys), with per-shard
// capacity capacity/shards+1.
func VerifH_TinyWideLRUHistory() {
	p := symx.Param("shards", 2)
	capacity := symx.Int64("capacity")
	symx.Assume(capacity >= 0 && capacity < 1<<40)
	var w LRU
	useX := symx.Param("xhash", 0) == 1
	if useX {
		w = NewWideXHashLRU(capacity, remap.WithPrime(uint64(p)))
	} else {
		w = NeWideLRU(capacity, remap.WithPrime(uint64(p)))
	}
	ww := w.(*WideLRUCache)
	symx.Assert(len(ww.ls) == p, "one shard cache per shard")
	ids := make([]*verifIdeal, p)
	for i := range ids {
		ids[i] = &verifIdeal{capacity: capacity/int64(p) + 1}
		symx.Assert(ww.ls[i].Capacity() == ids[i].capacity, "per-shard capacity is capacity/shards+1")
	}
	nk := symx.Param("keys", 2)
	keys := make([]int, nk)
	for i := range keys {
		keys[i] = symx.Int("k")
	}
	steps := symx.Param("steps", 3)
	for s := 0; s < steps; s++ {
		k := keys[symx.Concrete(symx.Int("which"), 0, nk-1)]
		var shard int
		if useX {
			shard = ww.rehash.XHashIndex(k)
		} else {
			shard = int(uint64(k) % uint64(p))
		}
		symx.Assert(shard >= 0 && shard < p, "shard index in range")
		id := ids[shard]
		switch symx.Concrete(symx.Int("op"), 0, 4) {
		case 0:
			v := verifItem{size: 1, tag: symx.Int("tag")}
			w.Set(k, v)
			id.set(k, v)
		case 1:
			got, ok := w.Get(k)
			i := id.find(k)
			symx.Assert(ok == (i >= 0), "Get hit/miss as the shard's ideal cache")
			if i >= 0 {
				symx.Assert(got.(verifItem) == id.ents[i].val, "Get value")
				id.toFront(i)
			}
		case 2:
			got, ok := w.Peek(k)
			i := id.find(k)
			symx.Assert(ok == (i >= 0), "Peek hit/miss")
			if i >= 0 {
				symx.Assert(got.(verifItem) == id.ents[i].val, "Peek value")
			}
		case 3:
			symx.Assert(w.Exist(k) == (id.find(k) >= 0), "Exist")
		case 4:
			ok := w.Delete(k)
			i := id.find(k)
			symx.Assert(ok == (i >= 0), "Delete result")
			if i >= 0 {
				id.size -= id.ents[i].size
				id.ents = append(id.ents[:i:i], id.ents[i+1:]...)
			}
		}
	}
	for i := range ids {
		verifCompare(ww.ls[i], ids[i])
	}
	symx.Reach("end")
}

// C04/H3 (cache/tiny): two goroutines, one operation each (A: Set / SetIfAbsent / SetAndGetRemoved, B: Get / Delete /
// Peek / Set / SetIfAbsent, symbolic keys that may coincide), all interleavings: no data race, and results
// and final cache are those of the ideal cache after one of the two sequential orders.
func VerifH_LRUConcurrent() {
	c, id := verifBuild()
	id2 := &verifIdeal{ents: append([]verifEnt(nil), id.ents...), size: id.size, capacity: id.capacity, evictions: id.evictions}
	ka, kb := symx.Int("ka"), symx.Int("kb")
	va := verifItem{size: 1, tag: 1} // tiny counts entries: every item weighs 1
	vb := verifItem{size: 1, tag: 2}
	opA := symx.Concrete(symx.Int("opA"), 0, 2)
	opB := symx.Concrete(symx.Int("opB"), 0, 4)
	var gotB interface{}
	var okB bool
	var remA []interface{}
	symx.Go("A", func() {
		switch opA {
		case 0:
			c.Set(ka, va)
		case 1:
			c.SetIfAbsent(ka, va)
		case 2:
			remA = c.SetAndGetRemoved(ka, va)
		}
	})
	symx.Go("B", func() {
		switch opB {
		case 0:
			gotB, okB = c.Get(kb)
		case 1:
			okB = c.Delete(kb)
		case 2:
			gotB, okB = c.Peek(kb)
		case 3:
			c.Set(kb, vb)
		case 4:
			c.SetIfAbsent(kb, vb)
		}
	})
	symx.WaitQuiescent()
	setIfAbsent := func(m *verifIdeal, k int, v verifItem) {
		if i := m.find(k); i >= 0 {
			m.toFront(i)
		} else {
			m.set(k, v)
		}
	}
	applyA := func(m *verifIdeal) []verifItem {
		switch opA {
		case 0:
			m.set(ka, va)
		case 1:
			setIfAbsent(m, ka, va)
		case 2:
			return m.set(ka, va)
		}
		return nil
	}
	applyB := func(m *verifIdeal) (interface{}, bool) {
		switch opB {
		case 3:
			m.set(kb, vb)
			return nil, false
		case 4:
			setIfAbsent(m, kb, vb)
			return nil, false
		}
		i := m.find(kb)
		if i < 0 {
			return nil, false
		}
		v := m.ents[i].val
		switch opB {
		case 0:
			m.toFront(i)
			return v, true
		case 1:
			m.size -= m.ents[i].size
			m.ents = append(m.ents[:i:i], m.ents[i+1:]...)
			return nil, true
		}
		return v, true
	}
	// order A;B
	r1 := applyA(id)
	g1, o1 := applyB(id)
	// order B;A
	g2, o2 := applyB(id2)
	r2 := applyA(id2)
	same := func(m *verifIdeal, rem []verifItem, g interface{}, o bool) bool {
		if o != okB {
			return false
		}
		if o && (opB == 0 || opB == 2) && g.(verifItem) != gotB.(verifItem) {
			return false
		}
		if opA == 2 {
			if len(rem) != len(remA) {
				return false
			}
			for i := range rem {
				if remA[i].(verifItem) != rem[i] {
					return false
				}
			}
		}
		keys := c.Keys()
		items := c.Items()
		if len(keys) != len(m.ents) || len(items) != len(m.ents) || c.Size() != m.size || c.Evictions() != m.evictions {
			return false
		}
		for i := range keys {
			if keys[i].(int) != m.ents[i].key || items[i].Value.(verifItem) != m.ents[i].val {
				return false
			}
		}
		return true
	}
	symx.Assert(same(id, r1, g1, o1) || same(id2, r2, g2, o2), "concurrent operations behave as one of the two sequential orders")
	symx.Reach("end")
}
