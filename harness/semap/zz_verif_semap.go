package semap

import (
	"context"
	"time"

	symx "github.com/pinealctx/neptune/zzsymx"
)

// verifCtx: a cancellable context written in the harness (package context itself uses unsafe/atomic.Value).
type verifCtx struct {
	done chan struct{}
	err  error
}

func verifNewCtx() *verifCtx                               { return &verifCtx{done: make(chan struct{})} }
func (c *verifCtx) Deadline() (time.Time, bool)            { return time.Time{}, false }
func (c *verifCtx) Done() <-chan struct{}                  { return c.done }
func (c *verifCtx) Err() error                             { return c.err }
func (c *verifCtx) Value(key interface{}) interface{}      { return nil }
func (c *verifCtx) cancel()                                { c.err = context.Canceled; close(c.done) }

// the map under test: single, or wide with `shards` shards (modulo routing; xhash when xhash=1)
func verifNewMap(ratio int) SemMapper {
	p := symx.Param("shards", 0)
	switch {
	case p == 0:
		return NewSemMap(WithRwRatio(ratio))
	case symx.Param("xhash", 0) == 1:
		return NewWideXHashSemMap(WithRwRatio(ratio), WithPrime(uint64(p)))
	}
	return NewWideSemMap(WithRwRatio(ratio), WithPrime(uint64(p)))
}

func verifEntries(m SemMapper) int {
	switch s := m.(type) {
	case *SemMap:
		return len(s.m)
	case *WideSemMap:
		n := 0
		for _, x := range s.ms {
			n += len(x.m)
		}
		return n
	}
	return -1
}

type verifMon struct {
	readers, writers int64
}

// monitors: ghost counters (no scheduling point of their own) around one explicit scheduling point,
// so that two critical sections overlap in some explored interleaving exactly when exclusion is broken
func (mon *verifMon) read(ratio int) {
	symx.YieldOn(mon)
	r := symx.GhostAdd(&mon.readers, 1)
	symx.Assert(symx.GhostLoad(&mon.writers) == 0, "no reader inside while a writer holds the key")
	symx.Assert(int(r) <= ratio, "at most rwRatio readers hold the key")
	symx.YieldOn(mon)
	symx.Assert(symx.GhostLoad(&mon.writers) == 0, "no writer enters while a reader holds the key")
	symx.GhostAdd(&mon.readers, -1)
}

func (mon *verifMon) write() {
	symx.YieldOn(mon)
	w := symx.GhostAdd(&mon.writers, 1)
	symx.Assert(w == 1 && symx.GhostLoad(&mon.readers) == 0, "a writer holds the key alone")
	symx.YieldOn(mon)
	symx.Assert(symx.GhostLoad(&mon.writers) == 1 && symx.GhostLoad(&mon.readers) == 0, "nobody enters while a writer holds the key")
	symx.GhostAdd(&mon.writers, -1)
}

// C01/H2: readers and a writer on one key (and a bystander key), all interleavings: exclusion inside the
// critical sections, no deadlock, no residue, no data race.
func VerifH_SemExclusion() {
	ratio := symx.Param("ratio", 2)
	m := verifNewMap(ratio)
	key := symx.Int("key")
	mon := &verifMon{}
	ctx := context.Background()
	nr := symx.Param("readers", 2)
	ts := make([]symx.ThreadID, 0, nr+1)
	for i := 0; i < nr; i++ {
		ts = append(ts, symx.Go("reader", func() {
			w, err := m.AcquireRead(ctx, key)
			symx.Assert(err == nil && w != nil, "acquire with a live context succeeds")
			mon.read(ratio)
			m.ReleaseRead(key, w)
		}))
	}
	ts = append(ts, symx.Go("writer", func() {
		w, err := m.AcquireWrite(ctx, key)
		symx.Assert(err == nil && w != nil, "acquire with a live context succeeds")
		mon.write()
		m.ReleaseWrite(key, w)
	}))
	symx.WaitQuiescent()
	for _, t := range ts {
		symx.MustFinish(t, "every acquirer eventually gets the key and returns")
	}
	symx.Assert(verifEntries(m) == 0, "once every holder has released and nobody waits, no entry is kept for the key")
	symx.Reach("end")
}

// C01/H2b: FIFO hand-off. A writer holds; a reader, a writer and a late reader arrive in that order.
// Release admits exactly the maximal fitting prefix, at once, and the late reader never overtakes the writer.
func VerifH_SemFIFO() {
	ratio := symx.Param("ratio", 2)
	m := verifNewMap(ratio)
	key := symx.Int("key")
	ctx := context.Background()
	w0, err := m.AcquireWrite(ctx, key)
	symx.Assert(err == nil, "first writer admitted immediately")
	var wr, ww, wl *Weighted
	tr := symx.Go("reader", func() { wr, _ = m.AcquireRead(ctx, key) })
	symx.WaitQuiescent()
	tw := symx.Go("writer", func() { ww, _ = m.AcquireWrite(ctx, key) })
	symx.WaitQuiescent()
	tl := symx.Go("lateReader", func() { wl, _ = m.AcquireRead(ctx, key) })
	symx.WaitQuiescent()
	symx.Assert(symx.Blocked(tr) && symx.Blocked(tw) && symx.Blocked(tl), "everybody queues behind the writer")
	m.ReleaseWrite(key, w0)
	symx.WaitQuiescent()
	symx.Assert(symx.Done(tr), "the reader at the head of the queue is admitted at once")
	symx.Assert(symx.Blocked(tw), "the waiting writer does not fit beside the reader")
	symx.Assert(symx.Blocked(tl), "a reader that arrived after the waiting writer does not overtake it")
	m.ReleaseRead(key, wr)
	symx.WaitQuiescent()
	symx.Assert(symx.Done(tw) && symx.Blocked(tl), "then the writer, alone")
	m.ReleaseWrite(key, ww)
	symx.WaitQuiescent()
	symx.Assert(symx.Done(tl), "then the late reader")
	m.ReleaseRead(key, wl)
	symx.Assert(verifEntries(m) == 0, "no residue")
	symx.Reach("end")
}

// C01/H2c: cancellation of the head waiter admits the waiters that now fit; cancel racing a release
// either fails (holds nothing) or succeeds (holds until its own release).
func VerifH_SemCancel() {
	ratio := symx.Param("ratio", 2)
	m := verifNewMap(ratio)
	key := symx.Int("key")
	ctx := context.Background()
	r0, err := m.AcquireRead(ctx, key)
	symx.Assert(err == nil, "reader admitted immediately")
	wctx := verifNewCtx()
	var ww, wl *Weighted
	var werr error
	tw := symx.Go("writer", func() { ww, werr = m.AcquireWrite(wctx, key) })
	symx.WaitQuiescent()
	tl := symx.Go("lateReader", func() { wl, _ = m.AcquireRead(ctx, key) })
	symx.WaitQuiescent()
	symx.Assert(symx.Blocked(tw) && symx.Blocked(tl), "writer waits for the reader, late reader queues behind the writer")
	if symx.Bool("raceWithRelease") {
		// cancel and release concurrently: all interleavings
		symx.Go("releaser", func() { m.ReleaseRead(key, r0) })
		wctx.cancel()
		symx.WaitQuiescent()
		symx.MustFinish(tw, "the cancelled (or admitted) writer returns")
		if werr == nil {
			symx.Assert(ww != nil, "admitted before the cancellation was seen: it holds the key")
			symx.Assert(symx.Blocked(tl), "and the late reader keeps waiting behind it")
			m.ReleaseWrite(key, ww)
			symx.WaitQuiescent()
		} else {
			symx.Assert(werr == context.Canceled && ww == nil, "a failed acquire returns its context's error and holds nothing")
		}
		symx.MustFinish(tl, "the late reader is admitted")
		m.ReleaseRead(key, wl)
	} else {
		wctx.cancel()
		symx.WaitQuiescent()
		symx.MustFinish(tw, "the cancelled writer returns")
		symx.Assert(werr == context.Canceled && ww == nil, "a failed acquire returns its context's error and holds nothing")
		if ratio >= 2 {
			symx.Assert(symx.Done(tl), "when the cancelled waiter leaves the head, the waiters that now fit are admitted at once")
			m.ReleaseRead(key, wl)
			m.ReleaseRead(key, r0)
		} else {
			// capacity 1: the first reader fills the key, so the late reader does not fit yet
			symx.Assert(symx.Blocked(tl), "a waiter that does not fit keeps waiting")
			m.ReleaseRead(key, r0)
			symx.WaitQuiescent()
			symx.MustFinish(tl, "and is admitted when the holder releases")
			m.ReleaseRead(key, wl)
		}
	}
	symx.Assert(verifEntries(m) == 0, "no residue")
	symx.Reach("end")
}

// C01/H2c': cancellation of the only waiter racing the holder's release, all interleavings: the waiter
// either holds the key (and releases it) or holds nothing; afterwards the key is free for a writer and,
// once everybody has released, the map keeps no entry for it (nobody else is queued who would clean up).
func VerifH_SemCancelAlone() {
	ratio := symx.Param("ratio", 2)
	m := verifNewMap(ratio)
	key := symx.Int("key")
	ctx := context.Background()
	holderWrites := symx.Bool("holderWrites")
	waiterWrites := symx.Bool("waiterWrites")
	symx.Assume(holderWrites || waiterWrites || ratio == 1) // otherwise the second reader is admitted at once
	var h0 *Weighted
	var err error
	if holderWrites {
		h0, err = m.AcquireWrite(ctx, key)
	} else {
		h0, err = m.AcquireRead(ctx, key)
	}
	symx.Assert(err == nil, "holder admitted immediately")
	wctx := verifNewCtx()
	var ww *Weighted
	var werr error
	tw := symx.Go("waiter", func() {
		if waiterWrites {
			ww, werr = m.AcquireWrite(wctx, key)
		} else {
			ww, werr = m.AcquireRead(wctx, key)
		}
	})
	symx.WaitQuiescent()
	symx.Assert(symx.Blocked(tw), "the waiter waits for the holder")
	symx.Go("releaser", func() {
		if holderWrites {
			m.ReleaseWrite(key, h0)
		} else {
			m.ReleaseRead(key, h0)
		}
	})
	wctx.cancel()
	symx.WaitQuiescent()
	symx.MustFinish(tw, "the cancelled (or admitted) waiter returns")
	if werr == nil {
		symx.Assert(ww != nil, "admitted before the cancellation was seen: it holds the key")
		symx.Assert(verifEntries(m) == 1, "a held key has its entry")
		if waiterWrites {
			m.ReleaseWrite(key, ww)
		} else {
			m.ReleaseRead(key, ww)
		}
	} else {
		symx.Assert(werr == context.Canceled && ww == nil, "a failed acquire returns its context's error and holds nothing")
	}
	symx.Assert(verifEntries(m) == 0, "once every holder has released and nobody waits, the map keeps no entry for the key")
	w2, err := m.AcquireWrite(ctx, key)
	symx.Assert(err == nil && w2 != nil, "the key is free again")
	m.ReleaseWrite(key, w2)
	symx.Assert(verifEntries(m) == 0, "no residue")
	symx.Reach("end")
}

// C01/H2c": an acquire whose context has already ended, on a key nobody uses, on a key with room (one
// reader of two) and on a key that is full (a writer holds it): it either holds the key - and keeps
// holding it until its own release - or fails with its context's error and holds nothing; either way a
// writer gets the key once the holders have released, and then the map keeps no entry for it.
func VerifH_SemDeadContext() {
	ratio := symx.Param("ratio", 2)
	m := verifNewMap(ratio)
	key := symx.Int("key")
	ctx := context.Background()
	dead := verifNewCtx()
	dead.cancel()
	var h0 *Weighted
	var err error
	holder := symx.Concrete(symx.Int("holder"), 0, 2) // 0 nobody, 1 a reader, 2 a writer
	switch holder {
	case 1:
		h0, err = m.AcquireRead(ctx, key)
		symx.Assert(err == nil, "reader admitted")
	case 2:
		h0, err = m.AcquireWrite(ctx, key)
		symx.Assert(err == nil, "writer admitted")
	}
	wantsWrite := symx.Bool("deadCallerWrites")
	var wd *Weighted
	var ed error
	td := symx.Go("deadCaller", func() {
		if wantsWrite {
			wd, ed = m.AcquireWrite(dead, key)
		} else {
			wd, ed = m.AcquireRead(dead, key)
		}
	})
	symx.WaitQuiescent()
	symx.MustFinish(td, "an acquire whose context has ended does not wait")
	if ed == nil {
		symx.Assert(wd != nil, "a successful acquire holds the key")
		symx.Assert(holder == 0 || (holder == 1 && !wantsWrite && ratio >= 2), "admitted only where it fits beside the holders")
		if wantsWrite {
			m.ReleaseWrite(key, wd)
		} else {
			m.ReleaseRead(key, wd)
		}
	} else {
		symx.Assert(ed == context.Canceled && wd == nil, "a failed acquire returns its context's error and holds nothing")
	}
	switch holder {
	case 1:
		m.ReleaseRead(key, h0)
	case 2:
		m.ReleaseWrite(key, h0)
	}
	symx.Assert(verifEntries(m) == 0, "once every holder has released and nobody waits, the map keeps no entry for the key")
	w2, err := m.AcquireWrite(ctx, key)
	symx.Assert(err == nil && w2 != nil, "the key is free again")
	m.ReleaseWrite(key, w2)
	symx.Assert(verifEntries(m) == 0, "no residue")
	symx.Reach("end")
}

// C01/H0: every map has the rwRatio it was constructed with - a symbolic ratio given to an earlier
// constructor (single or sharded) does not leak into a later one built with its own ratio or with the
// default: exactly ratio readers are admitted at once, the next one waits until a reader releases.
func VerifH_SemRatioPerMap() {
	r1 := symx.Concrete(symx.Int("earlierRatio"), 1, 12)
	var first SemMapper
	switch symx.Concrete(symx.Int("earlierKind"), 0, 2) {
	case 0:
		first = NewSemMap(WithRwRatio(r1))
	case 1:
		first = NewWideSemMap(WithRwRatio(r1), WithPrime(2))
	case 2:
		first = NewWideXHashSemMap(WithRwRatio(r1), WithPrime(3))
	}
	_ = first
	want := DefaultRWRatio
	var m SemMapper
	useDefault := symx.Bool("laterUsesDefault")
	wide := symx.Bool("laterIsSharded")
	switch {
	case useDefault && wide:
		m = NewWideSemMap()
	case useDefault:
		m = NewSemMap()
	default:
		want = symx.Concrete(symx.Int("laterRatio"), 1, 3)
		if wide {
			m = NewWideSemMap(WithRwRatio(want), WithPrime(2))
		} else {
			m = NewSemMap(WithRwRatio(want))
		}
	}
	ctx := context.Background()
	key := 5
	held := make([]*Weighted, 0, want)
	for i := 0; i < want; i++ {
		w, err := m.AcquireRead(ctx, key)
		symx.Assert(err == nil && w != nil, "up to rwRatio readers are admitted at once")
		held = append(held, w)
	}
	var extra *Weighted
	t := symx.Go("oneMore", func() { extra, _ = m.AcquireRead(ctx, key) })
	symx.WaitQuiescent()
	symx.Assert(symx.Blocked(t), "at most rwRatio readers hold a key: the next one waits")
	m.ReleaseRead(key, held[0])
	symx.WaitQuiescent()
	symx.MustFinish(t, "and is admitted when a reader releases")
	m.ReleaseRead(key, extra)
	for _, w := range held[1:] {
		m.ReleaseRead(key, w)
	}
	symx.Assert(verifEntries(m) == 0, "no residue")
	symx.Reach("end")
}

// C01/H2d: key independence: a held key never blocks another key.
func VerifH_SemKeys() {
	ratio := symx.Param("ratio", 2)
	m := verifNewMap(ratio)
	k1, k2 := symx.Int("k1"), symx.Int("k2")
	symx.Assume(k1 != k2)
	ctx := context.Background()
	w1, err := m.AcquireWrite(ctx, k1)
	symx.Assert(err == nil, "k1 writer")
	w2, err := m.AcquireWrite(ctx, k2)
	symx.Assert(err == nil, "holding k1 does not block k2")
	m.ReleaseWrite(k1, w1)
	symx.Assert(verifEntries(m) == 1, "only k2's entry is left")
	m.ReleaseWrite(k2, w2)
	symx.Assert(verifEntries(m) == 0, "no residue")
	symx.Reach("end")
}

// C01/H2e: a release by one of several holders must not drop the key's entry: the remaining holder
// still excludes a writer. (Sequential history plus one parked writer; deterministic.)
func VerifH_SemHoldersKeepEntry() {
	ratio := symx.Param("ratio", 2)
	symx.Assume(ratio >= 2)
	m := verifNewMap(ratio)
	key := symx.Int("key")
	ctx := context.Background()
	r1, err := m.AcquireRead(ctx, key)
	symx.Assert(err == nil, "first reader")
	r2, err := m.AcquireRead(ctx, key)
	symx.Assert(err == nil, "second reader shares the key")
	m.ReleaseRead(key, r2)
	symx.Assert(verifEntries(m) == 1, "the entry stays while a holder remains")
	var ww *Weighted
	tw := symx.Go("writer", func() { ww, _ = m.AcquireWrite(ctx, key) })
	symx.WaitQuiescent()
	symx.Assert(symx.Blocked(tw), "a writer waits for the reader that still holds the key")
	m.ReleaseRead(key, r1)
	symx.WaitQuiescent()
	symx.MustFinish(tw, "the writer is admitted when the last reader releases")
	m.ReleaseWrite(key, ww)
	symx.Assert(verifEntries(m) == 0, "no residue")
	symx.Reach("end")
}
