package pipe

import (
	symx "github.com/pinealctx/neptune/zzsymx"
)

// C14/H1: the lane index for every integer hash and every positive lane count.
func VerifH_NormalizeSlotIndex() {
	index, slots := symx.Int("index"), symx.Int("slots")
	symx.Assume(slots > 0)
	var r int
	symx.NoPanic("NormalizeSlotIndex panicked", func() { r = NormalizeSlotIndex(index, slots) })
	symx.Assert(r >= 0, "lane index is not negative")
	symx.Assert(r < slots, "lane index below the lane count")
	symx.Assert(NormalizeSlotIndex(index, slots) == r, "equal hash, equal lane")
	symx.Reach("end")
}
