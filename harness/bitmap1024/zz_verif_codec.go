package bitmap1024

import (
	"math"

	"github.com/pinealctx/neptune/bitmap1024/internal"

	symx "github.com/pinealctx/neptune/zzsymx"
)

// C09/H1: dense encoding. Three fully symbolic words, the others full/empty per pattern (at least
// one full word, so Len >= 64 and Marshal takes the 128-byte form).
func VerifH_MarshalDense() {
	b := NewBit1024()
	pat := uint16(symx.Param("densePattern", 0x0810))
	a0, a1, a2 := symx.Param("wordA", 0), symx.Param("wordB", 7), symx.Param("wordC", 15)
	for k := 0; k < L16; k++ {
		if k == a0 || k == a1 || k == a2 {
			b[k] = Bit64(symx.Uint64("w"))
		} else if pat>>uint(k)&1 == 1 {
			b[k] = ^Bit64(0)
		}
	}
	buf := b.Marshal()
	symx.Assert(len(buf) == L128, "dense form is 128 bytes")
	c := NewBit1024()
	err := c.Unmarshal(buf)
	symx.Assert(err == nil, "Unmarshal accepts Marshal's output")
	symx.Assert(c.Equal(b), "round trip reproduces the bitmap")
	for k := 0; k < L16; k++ {
		symx.Assert(c[k] == b[k], "word for word")
	}
	symx.Reach("end")
}

// C09/H2: sparse encoding on the window families of C08 (Len < 64) and the boundary word with 63 members.
func VerifH_MarshalSparse() {
	var b Bit1024
	if symx.Param("holeWord", -1) >= 0 {
		// 63 members: one full word with one symbolic bit cleared
		b = NewBit1024()
		k := symx.Uint8("hole")
		symx.Assume(k <= 63)
		b[symx.Param("holeWord", -1)] = ^Bit64(0) &^ (Bit64(1) << k)
	} else {
		b = verifFamily1024()
	}
	internal.SetSparseMagic(symx.Int32("sparseMagic"))
	m := verifMembers1024(b, false)
	symx.Assume(len(m) < 64)
	buf := b.Marshal()
	symx.Assert(len(buf) == 2*len(m), "sparse form: 2 bytes per member")
	symx.Assert((buf == nil) == (len(m) == 0), "empty bitmap marshals to nil")
	c := NewBit1024()
	err := c.Unmarshal(buf)
	symx.Assert(err == nil, "Unmarshal accepts Marshal's output")
	for k := 0; k < L16; k++ {
		symx.Assert(c[k] == b[k], "round trip reproduces the bitmap word for word")
	}
	symx.Reach("end")
}

// C09/H3: arbitrary bytes of length L into a receiver with arbitrary previous content.
func VerifH_UnmarshalArbitrary() {
	L := symx.Param("len", 4)
	buf := symx.Bytes("buf", L)
	b := verifSym1024("prev")
	before := make(Bit1024, L16)
	copy(before, b)
	var err error
	symx.NoPanic("Unmarshal panicked", func() { err = b.Unmarshal(buf) })
	j := symx.Int("j")
	symx.Assume(j >= 0 && j < 1024)
	switch {
	case L == 0:
		symx.Assert(err == nil, "empty input is accepted")
		symx.Assert(verifHas(b, j) == verifHas(before, j), "and changes nothing")
	case L > L128 || L%2 != 0:
		symx.Assert(err != nil, "too long or odd length is rejected")
	case L == L128:
		symx.Assert(err == nil, "128 bytes: dense form always accepted")
		word := j / 64
		var w uint64
		for k := 0; k < 8; k++ {
			w |= uint64(buf[word*8+k]) << uint(8*k)
		}
		symx.Assert(verifHas(b, j) == (w>>uint(j%64)&1 == 1), "dense form denotes its little-endian words")
	default:
		bad := false
		hit := false
		for i := 0; i < L/2; i++ {
			e := int(int16(uint16(buf[2*i]) | uint16(buf[2*i+1])<<8))
			if e < 0 || e > 1023 {
				bad = true
			}
			if e == j {
				hit = true
			}
		}
		symx.Assert((err != nil) == bad, "sparse form fails exactly when an element is outside [0,1023]")
		if err == nil {
			symx.Assert(verifHas(b, j) == (verifHas(before, j) || hit), "on success: previous content plus exactly the listed elements")
		}
	}
	symx.Reach("end")
}

// block-relative offset: offBase plus a symbolic 2-bit window (the low bits are C08's business)
func verifOff(name string) int64 {
	return int64(symx.Param("offBase", 62)) + int64(symx.Uint8(name)&3)
}

// C09/H4a: BigU32 accept/reject and block membership over every pair of int64.
func VerifH_BigU32Accept() {
	const lim = int64(math.MaxUint32) * 1024
	v, v2 := symx.Int64("v"), symx.Int64("v2")
	b, err := NewBigU32FromI64(v)
	valid := v >= 0 && v < lim
	symx.Assert((err == nil) == valid, "accepted exactly in [0, MaxUint32*1024)")
	if !valid {
		symx.Assert(b == nil, "no block for an unsupported integer")
		symx.Reach("rejected")
		return
	}
	symx.Assert(int64(b.Start) == v/C1K, "block start is v/1024")
	j := symx.Int("j")
	symx.Assume(j >= 0 && j < 1024)
	symx.Assert(verifHas(b.B1024, j) == (int64(j) == v%C1K), "exactly the offset bit is set")
	before := make(Bit1024, L16)
	copy(before, b.B1024)
	err2 := b.SetI64(v2)
	same := v2 >= 0 && v2 < lim && v2/C1K == v/C1K
	symx.Assert((err2 == nil) == same, "further integers accepted exactly when they belong to the block")
	if same {
		symx.Assert(verifHas(b.B1024, j) == (verifHas(before, j) || int64(j) == v2%C1K), "accepted integer adds exactly its offset")
	} else {
		symx.Assert(verifHas(b.B1024, j) == verifHas(before, j), "rejected integer changes nothing")
	}
	symx.Reach("end")
}

// C09/H4b: BigU32 iteration: every 32-bit block, offsets offBase+{0..3}.
func VerifH_BigU32() {
	symx.ForkIndex(true)
	internal.SetSparseMagic(symx.Int32("sparseMagic"))
	const lim = int64(math.MaxUint32) * 1024
	block := int64(symx.Uint32("block"))
	v := block*C1K + verifOff("off")
	symx.Assume(v < lim)
	b, err := NewBigU32FromI64(v)
	symx.Assert(err == nil, "in-range integer accepted")
	n := symx.Concrete(symx.Int("n"), 1, 2)
	r := b.GetNAsI64(n)
	symx.Assert(len(r) == 1 && r[0] == v, "forward iteration gives back precisely the integer")
	r = b.RGetNAsI64(n)
	symx.Assert(len(r) == 1 && r[0] == v, "reverse iteration gives back precisely the integer")
	// a second integer of the same block
	v2 := block*C1K + verifOff("off2")
	symx.Assume(v2 < lim)
	err2 := b.SetI64(v2)
	symx.Assert(err2 == nil, "integer of the same block accepted")
	if v2 != v {
		lo, hi := v, v2
		if lo > hi {
			lo, hi = hi, lo
		}
		f := b.GetNAsI64(3)
		symx.Assert(len(f) == 2 && f[0] == lo && f[1] == hi, "forward iteration ascending")
		g := b.RGetNAsI64(3)
		symx.Assert(len(g) == 2 && g[0] == hi && g[1] == lo, "reverse iteration descending")
		f1 := b.GetNAsI64(1)
		symx.Assert(len(f1) == 1 && f1[0] == lo, "forward prefix")
		symx.Reach("two")
	}
	symx.Reach("end")
}

// C09/H5: U32BitTip over every uint32.
func VerifH_U32BitTip() {
	symx.ForkIndex(true)
	internal.SetSparseMagic(symx.Int32("sparseMagic"))
	block := symx.Uint32("block")
	symx.Assume(block <= MaxU32TipStart)
	off := uint32(verifOff("off"))
	symx.Assume(uint64(block)*C1K+uint64(off) <= math.MaxUint32)
	u := block*C1K + off
	b := NewU32BitTipFromU32(u)
	symx.Assert(b.Start == u/C1K, "block start is u/1024")
	n := symx.Concrete(symx.Int("n"), 1, 2)
	r := b.GetNAsU32(n)
	symx.Assert(len(r) == 1 && r[0] == u, "forward iteration gives back precisely the integer")
	r = b.RGetNAsU32(n)
	symx.Assert(len(r) == 1 && r[0] == u, "reverse iteration gives back precisely the integer")
	other := symx.Uint32("other")
	if other/C1K != u/C1K {
		symx.Assert(b.SetU32(other) != nil, "integer of another block rejected")
	}
	off2 := uint32(verifOff("off2"))
	symx.Assume(uint64(block)*C1K+uint64(off2) <= math.MaxUint32)
	u2 := block*C1K + off2
	err2 := b.SetU32(u2)
	symx.Assert(err2 == nil, "integer of the same block accepted")
	if u2 != u {
		lo, hi := u, u2
		if lo > hi {
			lo, hi = hi, lo
		}
		f := b.GetNAsU32(3)
		symx.Assert(len(f) == 2 && f[0] == lo && f[1] == hi, "forward iteration ascending")
		g := b.RGetNAsU32(3)
		symx.Assert(len(g) == 2 && g[0] == hi && g[1] == lo, "reverse iteration descending")
		symx.Reach("two")
	}
	// the data constructor enforces the start bound
	start := symx.Uint32("start")
	t, err := NewU32BitTipFromData(start, nil)
	symx.Assert((err == nil) == (start <= MaxU32TipStart), "start accepted exactly up to MaxUint32/1024")
	if err == nil {
		symx.Assert(t.Start == start && t.B1024.Len() == 0, "empty data gives an empty block at start")
	}
	symx.Reach("end")
}

// C09/H4c: blocks built from serialized data (the empty payload included) are values of their own: two
// blocks unmarshalled from the same bytes, of either block type, denote exactly the set the bytes denote
// at their own start, also after one of them accepted a further integer of its block.
func VerifH_BlocksFromData() {
	symx.ForkIndex(true)
	src := NewBit1024()
	members := symx.Concrete(symx.Int("members"), 0, 1)
	off := verifOff("off")
	if members == 1 {
		src.SetI32(int32(off))
	}
	var data []byte
	switch symx.Concrete(symx.Int("payload"), 0, 1) {
	case 0:
		data = src.Marshal()
	case 1:
		symx.Assume(members == 0)
		data = nil // an empty payload may also be no bytes at all
	}
	kept := append([]byte(nil), data...)
	s1, s2 := uint32(symx.Concrete(symx.Int("start1"), 0, 2)), uint32(symx.Concrete(symx.Int("start2"), 0, 2))
	add := verifOff("add")
	big := symx.Bool("firstIsBigU32")
	var xs, ys []int64
	if big {
		x, err := NewBigU32FromData(s1, data)
		symx.Assert(err == nil, "block from marshalled data")
		symx.Assert(x.SetI64(int64(s1)*C1K+add) == nil, "integer of the same block accepted")
		xs = x.GetNAsI64(4)
	} else {
		x, err := NewU32BitTipFromData(s1, data)
		symx.Assert(err == nil, "block from marshalled data")
		symx.Assert(x.SetU32(s1*C1K+uint32(add)) == nil, "integer of the same block accepted")
		for _, v := range x.GetNAsU32(4) {
			xs = append(xs, int64(v))
		}
	}
	if symx.Bool("secondIsBigU32") {
		y, err := NewBigU32FromData(s2, data)
		symx.Assert(err == nil, "second block from the same data")
		ys = y.GetNAsI64(4)
	} else {
		y, err := NewU32BitTipFromData(s2, data)
		symx.Assert(err == nil, "second block from the same data")
		for _, v := range y.GetNAsU32(4) {
			ys = append(ys, int64(v))
		}
	}
	symx.Assert(len(ys) == members, "a block built from the bytes denotes exactly the set the bytes denote")
	if members == 1 && len(ys) == 1 {
		symx.Assert(ys[0] == int64(s2)*C1K+off, "at its own start")
	}
	wantX := members
	if members == 0 || add != off {
		wantX++
	}
	symx.Assert(len(xs) == wantX, "the first block holds the data's members and the integer it accepted")
	symx.Assert(len(data) == len(kept), "the input bytes are not changed")
	for i := range kept {
		symx.Assert(data[i] == kept[i], "the input bytes are not changed")
	}
	symx.Reach("end")
}
