package bitmap1024

import (
	"math/bits"

	"github.com/pinealctx/neptune/bitmap1024/internal"

	symx "github.com/pinealctx/neptune/zzsymx"
)

type verifInt interface {
	~int16 | ~int32 | ~uint32 | ~int64
}

func verifSym1024(name string) Bit1024 {
	b := NewBit1024()
	for i := range b {
		b[i] = Bit64(symx.Uint64(name))
	}
	return b
}

// membership of a (possibly symbolic) index j in [0,1024)
func verifHas(b Bit1024, j int) bool {
	return uint64(b[j/64])>>uint(j%64)&1 == 1
}

// C08/H1 (1024-bit layer): all 16 words symbolic, every int16/int32 index.
func VerifH_SetUnset1024() {
	b := verifSym1024("w")
	before := make(Bit1024, L16)
	copy(before, b)
	j := symx.Int("j")
	symx.Assume(j >= 0 && j < 1024)
	op := symx.Concrete(symx.Int("op"), 0, 3)
	var i int
	switch op {
	case 0:
		v := symx.Int16("i16")
		i = int(v)
		b.SetI16(v)
	case 1:
		v := symx.Int32("i32")
		i = int(v)
		b.SetI32(v)
	case 2:
		v := symx.Int16("i16")
		i = int(v)
		b.UnsetI16(v)
	case 3:
		v := symx.Int32("i32")
		i = int(v)
		b.UnsetI32(v)
	}
	if i >= 0 && i < 1024 {
		if j == i {
			symx.Assert(verifHas(b, j) == (op <= 1), "membership of the index itself is set/cleared")
		} else {
			symx.Assert(verifHas(b, j) == verifHas(before, j), "membership of every other index unchanged")
		}
	} else {
		for k := 0; k < L16; k++ {
			symx.Assert(b[k] == before[k], "out-of-range index (negative or >= 1024) ignored")
		}
	}
	symx.Reach("end")
}

func VerifH_Algebra1024() {
	b, c := verifSym1024("b"), verifSym1024("c")
	j := symx.Int("j")
	symx.Assume(j >= 0 && j < 1024)
	symx.Assert(verifHas(b.Reverse(), j) == !verifHas(b, j), "Reverse is complement")
	symx.Assert(verifHas(b.And(c), j) == (verifHas(b, j) && verifHas(c, j)), "And is intersection")
	symx.Assert(verifHas(b.Or(c), j) == (verifHas(b, j) || verifHas(c, j)), "Or is union")
	symx.Assert(verifHas(b.OrThenReverse(c), j) == !(verifHas(b, j) || verifHas(c, j)), "OrThenReverse is complement of union")
	var diff uint64
	for k := 0; k < L16; k++ {
		diff |= uint64(b[k] ^ c[k])
	}
	symx.Assert(b.Equal(c) == (diff == 0), "Equal is set equality")
	symx.Assert(b.Equal(b), "Equal is reflexive")
	symx.Reach("end")
}

// C08/H1b: the results of the set operations are sets of their own: changing a result leaves the operands
// as they were and vice versa - also when an operand is the empty set, the full set, or the receiver itself.
func VerifH_AlgebraIndependent() {
	mk := func(kind int) Bit1024 {
		x := NewBit1024()
		switch kind {
		case 1:
			x.SetI32(3)
			x.SetI32(700)
		case 2:
			for k := 0; k < L16; k++ {
				x[k] = ^Bit64(0)
			}
		case 3:
			x.SetI32(int32(symx.Concrete(symx.Int("member"), 0, 3) * 341)) // 0, 341, 682, 1023
		}
		return x
	}
	b := mk(symx.Concrete(symx.Int("bKind"), 0, 3))
	c := mk(symx.Concrete(symx.Int("cKind"), 0, 3))
	j := []int{0, 3, 64, 700, 1023}[symx.Concrete(symx.Int("probe"), 0, 4)]
	hadB, hadC := verifHas(b, j), verifHas(c, j)
	var r Bit1024
	switch symx.Concrete(symx.Int("resultOf"), 0, 4) {
	case 0:
		r = b.Or(c)
	case 1:
		r = b.And(c)
	case 2:
		r = b.Reverse()
	case 3:
		r = b.OrThenReverse(c)
	case 4:
		r = b.Or(b)
	}
	hadR := verifHas(r, j)
	if hadR {
		r.UnsetI32(int32(j))
	} else {
		r.SetI32(int32(j))
	}
	symx.Assert(verifHas(r, j) == !hadR, "setting or clearing an index changes its membership")
	symx.Assert(verifHas(b, j) == hadB && verifHas(c, j) == hadC, "changing the result of an operation does not change its operands")
	if hadB {
		b.UnsetI32(int32(j))
	} else {
		b.SetI32(int32(j))
	}
	symx.Assert(verifHas(r, j) == !hadR, "changing an operand afterwards does not change the result")
	symx.Reach("end")
}

// Len/NLen: Bit64.Len branches on Full per word (2^16 paths for 16 free words), so three words at
// parameterised positions are symbolic and the others are 0 or all ones according to a pattern parameter.
func VerifH_Len1024() {
	b := NewBit1024()
	pat := uint16(symx.Param("lenPattern", 0x5a5a)) // which of the other words are all ones
	a0 := symx.Param("lenWordA", 0)
	a1 := symx.Param("lenWordB", 7)
	a2 := symx.Param("lenWordC", 15)
	fullWords := 0
	for k := 0; k < L16; k++ {
		if k == a0 || k == a1 || k == a2 {
			b[k] = Bit64(symx.Uint64("w"))
			continue
		}
		if pat>>uint(k)&1 == 1 {
			b[k] = ^Bit64(0)
			fullWords++
		}
	}
	cnt := 64 * fullWords
	cnt += bits.OnesCount64(uint64(b[a0])) + bits.OnesCount64(uint64(b[a1])) + bits.OnesCount64(uint64(b[a2]))
	symx.Assert(b.Len() == cnt && b.NLen() == 1024-cnt, "Len/NLen count members and non-members")
	symx.Reach("end")
}

// verifFamily1024: words w0 and w0+1 carry symbolic windows (winBits bits at winPos0 / winPos1),
// word `full` (if >= 0) is all ones, every other bit is 0.
func verifFamily1024() Bit1024 {
	b := NewBit1024()
	w0, nb := symx.Param("w0", 7), symx.Param("winBits", 3)
	p0, p1, full := symx.Param("winPos0", 61), symx.Param("winPos1", 0), symx.Param("full", -1)
	mask := uint64(1)<<uint(nb) - 1
	b[w0] = Bit64((symx.Uint64("windowA") & mask) << uint(p0))
	if w0+1 < L16 {
		b[w0+1] = Bit64((symx.Uint64("windowB") & mask) << uint(p1))
	}
	if full >= 0 {
		b[full] = ^Bit64(0)
	}
	return b
}

func verifMembers1024(b Bit1024, reverse bool) []int {
	var m []int
	if reverse {
		for i := 1023; i >= 0; i-- {
			if b[i/64]&(Bit64(1)<<uint(i%64)) != 0 {
				m = append(m, i)
			}
		}
	} else {
		for i := 0; i < 1024; i++ {
			if b[i/64]&(Bit64(1)<<uint(i%64)) != 0 {
				m = append(m, i)
			}
		}
	}
	return m
}

func verifCount(hi int) int {
	n := symx.Int("n")
	if n >= -1 && n <= hi {
		n = symx.Concrete(n, -1, hi)
	}
	return n
}

func verifIter1024[T verifInt](call func(b Bit1024, s []T, pos int, add T, n int) int, reverse bool) {
	b := verifFamily1024()
	internal.SetSparseMagic(symx.Int32("sparseMagic"))
	nMax := symx.Param("nMax", 8)
	pos := symx.Concrete(symx.Int("pos"), 0, 1)
	n := verifCount(nMax)
	add := T(symx.Int64("add"))
	s := make([]T, pos+nMax+2)
	old := make([]T, len(s))
	for i := range s {
		s[i] = T(symx.Int64("old"))
		old[i] = s[i]
	}
	symx.Assume(n <= nMax+1 || b.Len() <= nMax+1) // the caller provides room for min(n, Len) results
	var ret int
	symx.NoPanic("iterator panicked", func() { ret = call(b, s, pos, add, n) })
	m := verifMembers1024(b, reverse)
	want := len(m)
	if n < want {
		want = n
	}
	if want < 0 {
		want = 0
	}
	want = symx.Concrete(want, 0, 1024)
	symx.Assert(ret == want, "returns min(max(n,0), Len)")
	symx.Assert(b.Len() == len(m), "Len counts the members")
	for j := 0; j < len(s); j++ {
		if j >= pos && j < pos+want {
			symx.Assert(s[j] == T(m[j-pos])+add, "slot holds the j-th member plus add")
		} else {
			symx.Assert(s[j] == old[j], "slots outside [pos, pos+count) untouched")
		}
	}
	symx.Reach("end")
}

func VerifH_Iter1024AsI64() { verifIter1024(func(b Bit1024, s []int64, p int, a int64, n int) int { return b.IterAsI64(s, p, a, n) }, false) }
func VerifH_Iter1024AsI32() { verifIter1024(func(b Bit1024, s []int32, p int, a int32, n int) int { return b.IterAsI32(s, p, a, n) }, false) }
func VerifH_Iter1024AsU32() { verifIter1024(func(b Bit1024, s []uint32, p int, a uint32, n int) int { return b.IterAsU32(s, p, a, n) }, false) }
func VerifH_Iter1024AsI16() { verifIter1024(func(b Bit1024, s []int16, p int, a int16, n int) int { return b.IterAsI16(s, p, a, n) }, false) }
func VerifH_RIter1024AsI64() { verifIter1024(func(b Bit1024, s []int64, p int, a int64, n int) int { return b.RIterAsI64(s, p, a, n) }, true) }
func VerifH_RIter1024AsI32() { verifIter1024(func(b Bit1024, s []int32, p int, a int32, n int) int { return b.RIterAsI32(s, p, a, n) }, true) }
func VerifH_RIter1024AsU32() { verifIter1024(func(b Bit1024, s []uint32, p int, a uint32, n int) int { return b.RIterAsU32(s, p, a, n) }, true) }
func VerifH_RIter1024AsI16() { verifIter1024(func(b Bit1024, s []int16, p int, a int16, n int) int { return b.RIterAsI16(s, p, a, n) }, true) }

func verifGetN1024[T verifInt](call func(b Bit1024, n int) []T, reverse bool) {
	b := verifFamily1024()
	internal.SetSparseMagic(symx.Int32("sparseMagic"))
	nMax := symx.Param("nMax", 8)
	n := symx.Int("n")
	symx.Assume(n >= 0 && n <= nMax) // negative n makes make() panic: precondition
	n = symx.Concrete(n, 0, nMax)
	var r []T
	symx.NoPanic("GetNAs panicked", func() { r = call(b, n) })
	m := verifMembers1024(b, reverse)
	want := len(m)
	if n < want {
		want = n
	}
	symx.Assert(len(r) == want, "length = min(n, Len)")
	symx.Assert((r == nil) == (want == 0), "nil exactly when empty")
	for j := 0; j < want; j++ {
		symx.Assert(r[j] == T(m[j]), "j-th member in direction order")
	}
	symx.Reach("end")
}

func VerifH_GetN1024AsI64()  { verifGetN1024(func(b Bit1024, n int) []int64 { return b.GetNAsI64(n) }, false) }
func VerifH_GetN1024AsI32()  { verifGetN1024(func(b Bit1024, n int) []int32 { return b.GetNAsI32(n) }, false) }
func VerifH_GetN1024AsI16()  { verifGetN1024(func(b Bit1024, n int) []int16 { return b.GetNAsI16(n) }, false) }
func VerifH_RGetN1024AsI64() { verifGetN1024(func(b Bit1024, n int) []int64 { return b.RGetNAsI64(n) }, true) }
func VerifH_RGetN1024AsI32() { verifGetN1024(func(b Bit1024, n int) []int32 { return b.RGetNAsI32(n) }, true) }
func VerifH_RGetN1024AsI16() { verifGetN1024(func(b Bit1024, n int) []int16 { return b.RGetNAsI16(n) }, true) }
