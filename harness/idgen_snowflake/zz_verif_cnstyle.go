package snowflake

import (
	"time"

	symx "github.com/pinealctx/neptune/zzsymx"
)

// C07/H3: the 24-character date form converts back to the identical id.
// The timestamp lies in a window of `span` milliseconds that starts `span/2` ms before a civil-time
// anchor in the fixed UTC+8 zone (so the window straddles the boundary); of the remaining bits the
// low `leftBits` are arbitrary under a concrete high part (sweeping the high part covers them all).
//
//	anchor 0: the epoch itself (window starts at the epoch)
//	       1: 2024-02-29 00:00 (leap day begins)      2: 2024-03-01 00:00 (leap day ends)
//	       3: 2025-01-01 00:00 (new year)             4: 2023-03-01 00:00 (28-day February ends)
//	       5: 2038-01-19 11:14:08 (2^31 s)            6: the last millisecond the timestamp width can hold
//	       7: 2100-03-01 00:00 (century year without leap day; fits only the 8-bit node layout)
//	       8: 2021-06-15 12:30:30 (mid second, mid day)
func VerifH_CnStyleRoundTrip() {
	nb := symx.Param("nodeBits", 10)
	symx.Assume(nb >= 8 && nb <= 10)
	var epoch int64
	switch symx.Param("epoch", 0) {
	case 0:
		epoch = 1609430400000 // the package default: 2021-01-01 00:00 +08
	case 1:
		epoch = 946684800000 // 2000-01-01 00:00 UTC
	default:
		symx.Assume(false)
	}
	// priorNodeBits != 0: the package is configured through its public Setup, first with another node
	// width under which the same id is rendered once, then reconfigured to the width under test: nothing
	// carried over from before the reconfiguration may influence the round trip
	prior := symx.Param("priorNodeBits", 0)
	if prior != 0 {
		symx.Assume(prior >= 8 && prior <= 10 && prior != nb)
		opts := []Option{UseEpoch(time.UnixMilli(epoch)), UseNodeMode(NodeBitsMode(prior))}
		if symx.Param("nodeAtLowest", 0) == 1 {
			opts = append(opts, NodeAtLowest())
		}
		Setup(opts...)
		symx.Assert(_epoch == epoch && _nodeBits == uint8(prior), "Setup applied")
	} else {
		_nodeBits = uint8(nb)
		_nodeAtLowest = symx.Param("nodeAtLowest", 0) == 1
		_epoch = epoch
	}
	// Asia/Shanghai has been a fixed UTC+8 zone since 1991; the tz database is not read
	timeLoc = time.FixedZone("CST", 8*3600)
	timeShift := uint8(nb) + StepBits
	var timeMax int64 = (1 << (63 - timeShift)) - 1
	span := int64(symx.Param("span", 1024))
	symx.Assume(span > 0 && span <= 1<<16 && span&(span-1) == 0)
	var anchor int64
	at := func(y int, m time.Month, d, hh, mm, ss int) int64 {
		return time.Date(y, m, d, hh, mm, ss, 0, timeLoc).UnixNano() / MsDivNs
	}
	switch symx.Param("anchor", 0) {
	case 0:
		anchor = _epoch + span/2
	case 1:
		anchor = at(2024, 2, 29, 0, 0, 0)
	case 2:
		anchor = at(2024, 3, 1, 0, 0, 0)
	case 3:
		anchor = at(2025, 1, 1, 0, 0, 0)
	case 4:
		anchor = at(2023, 3, 1, 0, 0, 0)
	case 5:
		anchor = (1 << 31) * 1000
	case 6:
		anchor = _epoch + timeMax - span/2 + 1
	case 7:
		anchor = at(2100, 3, 1, 0, 0, 0)
	case 8:
		anchor = at(2021, 6, 15, 12, 30, 30) + 500
	default:
		symx.Assume(false)
	}
	ms := anchor - span/2 + int64(symx.Uint16("d")&uint16(span-1))
	tf := ms - _epoch
	symx.Assume(tf >= 0 && tf <= timeMax)
	// remaining bits: `leftBits` symbolic low bits under the concrete high part `leftHi`
	leftBits := uint(symx.Param("leftBits", 10))
	leftHi := int64(symx.Param("leftHi", 0))
	symx.Assume(leftBits <= uint(timeShift) && leftHi>>(uint(timeShift)-leftBits) == 0)
	left := leftHi<<leftBits | int64(symx.Uint32("left")&uint32(1<<leftBits-1))
	id := tf<<timeShift | left
	if prior != 0 {
		before := CnStyle(id)
		symx.Assert(len(before) == TimeStrLen, "the date form has 24 characters (under the earlier configuration)")
		Setup(UseNodeMode(NodeBitsMode(nb)))
		symx.Assert(_epoch == epoch && _nodeBits == uint8(nb), "Setup applied")
	}
	s := CnStyle(id)
	symx.Assert(len(s) == TimeStrLen, "the date form has 24 characters")
	back, err := FromChStyle(s)
	symx.Assert(err == nil, "the date form of an id parses")
	symx.Assert(back == id, "and converts back to the identical id")
	symx.Reach("end")
}
