package snowflake

import (
	"time"

	symx "github.com/pinealctx/neptune/zzsymx"
)

// verifLayout picks one of the 6 layouts (node bits 8/9/10 x node-at-lowest) and a symbolic epoch.
func verifLayout() (timeShift uint8) {
	nb := symx.Concrete(symx.Int("nodeBits"), 8, 10)
	_nodeBits = uint8(nb)
	_nodeAtLowest = false
	if symx.Bool("nodeAtLowest") {
		_nodeAtLowest = true
	}
	ep := symx.Int64("epochMs")
	symx.Assume(ep >= 0 && ep < 1<<42)
	_epoch = ep
	return _nodeBits + StepBits
}

func verifEnc(t, node, step int64) int64 {
	ts, ns, ss := figureShift()
	return t<<ts | node<<ns | step<<ss
}

// C06/H1: one Generate from an arbitrary HardNode state under an arbitrary clock reading.
func VerifH_HardNodeStep() {
	timeShift := verifLayout()
	var nodeMax int64 = (1 << _nodeBits) - 1
	var stepMax int64 = (1 << StepBits) - 1
	var timeMax int64 = (1 << (63 - timeShift)) - 1
	n := &HardNode{}
	n.time, n.node, n.step, n.epoch = symx.Int64("time"), symx.Int64("node"), symx.Int64("step"), symx.Int64("nepoch")
	symx.Assume(n.time >= 0 && n.time < timeMax) // time+1 still fits the timestamp width
	symx.Assume(n.node >= 0 && n.node <= nodeMax)
	symx.Assume(n.step >= 0 && n.step <= stepMax)
	symx.Assume(n.epoch >= 0 && n.epoch < 1<<42)
	sec, nsec := symx.Int64("sec"), int64(symx.Uint32("nsec")&(1<<30-1)) // 30 bits hold every nanosecond count
	symx.Assume(nsec < 1000000000)
	symx.Assume(sec >= -(1<<33) && sec < 1<<34)
	_HookNow = func() time.Time { return time.Unix(sec, nsec) }
	// the clock reading in milliseconds since the node's epoch, computed without going through
	// int64 nanoseconds (which overflow in 2262; the 43-bit timestamp of the 8-bit layout reaches 2299)
	now := sec*SDivMs + nsec/MsDivNs - n.epoch
	symx.Assume(now <= timeMax) // the clock reading fits the timestamp width (beyond it the shift overflows)
	last := verifEnc(n.time, n.node, n.step)
	node := n.node

	id := n.Generate()

	symx.Assert(id > last, "id strictly above the last id issued")
	ft, fn, fs := IDFields(id)
	symx.Assert(ft >= now, "timestamp never before the clock reading")
	symx.Assert(fn == node && n.node == node, "node field equals the configured node")
	symx.Assert(ft == n.time && fs == n.step, "state equals the fields of the id (closes the induction)")
	symx.Assert(n.time >= 0 && n.step >= 0 && n.step <= stepMax, "state invariant kept")
	symx.Reach("end")
}

// C06/H2: restart from the last id issued.
func VerifH_NewNodeRestart() {
	timeShift := verifLayout()
	// NewNode pushes the epoch through time.Unix(ms/1000, ms%1000*1e6).UnixNano()/1e6; that
	// identity does not solve for a symbolic 42-bit epoch, so the epoch is one of three constants here
	// (HardNodeStep covers every node epoch symbolically).
	switch symx.Concrete(symx.Int("epochChoice"), 0, 2) {
	case 0:
		_epoch = 0
	case 1:
		_epoch = 1609430400000
	case 2:
		_epoch = 946684800123
	}
	var nodeMax int64 = (1 << _nodeBits) - 1
	var timeMax int64 = (1 << (63 - timeShift)) - 1
	node, last := symx.Int64("node"), symx.Int64("last")
	symx.Assume(last >= 0 && last>>timeShift < timeMax)
	sec, nsec := symx.Int64("sec"), int64(symx.Uint32("nsec")&(1<<30-1))
	symx.Assume(nsec < 1000000000)
	symx.Assume(sec >= -(1<<33) && sec < 1<<34)
	_HookNow = func() time.Time { return time.Unix(sec, nsec) }
	nd, err := NewNode(node, last)
	if node < 0 || node > nodeMax {
		symx.Assert(err != nil && nd == nil, "out-of-range node rejected")
		symx.Reach("rejected")
		return
	}
	symx.Assert(err == nil, "in-range node accepted")
	hn := nd.(*HardNode)
	symx.Assert(hn.epoch == _epoch, "epoch in ms survives the time.Unix round trip")
	now := sec*SDivMs + nsec/MsDivNs - hn.epoch
	symx.Assume(now <= timeMax)
	_, lnode, _ := IDFields(last)
	id := nd.Generate()
	symx.Assert(id>>timeShift > last>>timeShift || (id>>timeShift == last>>timeShift && id != last), "restart continues at or above the last timestamp")
	if lnode == node {
		symx.Assert(id > last, "restarted with its own last id: strictly above it")
	}
	_, fn, _ := IDFields(id)
	symx.Assert(fn == node, "node field equals the configured node")
	symx.Reach("end")
}

// C06/H3: MonoNode.Generate under a monotonic clock stub (time.Since returns
// non-decreasing readings; assumed to reach the next millisecond within 3 readings).
// Bound: millisecond readings are base+off with base in {0, 2^38} and off a symbolic
// 10-bit offset, sub-millisecond part in {0, 999999} (64-bit division by 10^6 of a
// fully symbolic reading does not solve).
func VerifH_MonoNodeStep() {
	timeShift := verifLayout()
	var nodeMax int64 = (1 << _nodeBits) - 1
	var stepMax int64 = (1 << StepBits) - 1
	var timeMax int64 = (1 << (63 - timeShift)) - 1
	var base int64
	if symx.Bool("farFuture") {
		base = 1 << 38
	}
	n := &MonoNode{}
	n.time = base + int64(symx.Uint16("timeOff")&1023)
	n.node, n.step = symx.Int64("node"), symx.Int64("step")
	symx.Assume(n.time < timeMax)
	symx.Assume(n.node >= 0 && n.node <= nodeMax)
	symx.Assume(n.step >= 0 && n.step <= stepMax)
	// the monotonic clock never runs backwards: the previous call read n.time
	prevMs := n.time
	reads := 0
	var first int64 = -1
	symx.Stub("time.Since", func(t time.Time) time.Duration {
		ms := base + int64(symx.Uint16("sinceOff")&2047)
		symx.Assume(ms >= prevMs && ms <= timeMax)
		reads++
		if reads >= 3 {
			symx.Assume(ms > prevMs)
		}
		prevMs = ms
		if first < 0 {
			first = ms
		}
		var sub int64
		if symx.Bool("subMs") {
			sub = 999999
		}
		return time.Duration(ms*MsDivNs + sub)
	})
	symx.Unwind(6)
	last := verifEnc(n.time, n.node, n.step)
	node := n.node
	id := n.Generate()
	symx.Assert(id > last, "id strictly above the last id issued")
	ft, fn, fs := IDFields(id)
	symx.Assert(ft >= first, "timestamp never before the clock reading")
	symx.Assert(fn == node, "node field equals the configured node")
	symx.Assert(ft == n.time && fs == n.step, "state equals the fields of the id (closes the induction)")
	symx.Reach("end")
}

// C06/H5: two goroutines x two Generate calls on one HardNode, all interleavings, fixed layout.
func VerifH_HardNodeConcurrent() {
	n := &HardNode{}
	n.time, n.node, n.step = symx.Int64("time"), 5, symx.Int64("step")
	symx.Assume(n.time >= 0 && n.time < 1<<40)
	symx.Assume(n.step >= 0 && n.step <= 4095)
	ms := symx.Int64("nowMs")
	symx.Assume(ms >= 0 && ms < 1<<40)
	_HookNow = func() time.Time { return time.UnixMilli(ms) }
	last := verifEnc(n.time, n.node, n.step)
	var a1, a2, b1, b2 int64
	symx.Go("A", func() { a1 = n.Generate(); a2 = n.Generate() })
	symx.Go("B", func() { b1 = n.Generate(); b2 = n.Generate() })
	symx.WaitQuiescent()
	symx.Assert(a2 > a1 && b2 > b1, "per-goroutine increasing")
	symx.Assert(a1 != b1 && a1 != b2 && a2 != b1 && a2 != b2, "distinct across goroutines")
	symx.Assert(a1 > last && b1 > last, "above the last id before the calls")
	symx.Reach("end")
}

// C06/H6: two goroutines x `calls` Generate calls on one MonoNode under one shared monotonic
// clock: every reading (whichever goroutine takes it, wherever it is scheduled) is the previous
// reading or one millisecond later (symbolic), and the third reading in a row without progress
// advances. All interleavings of the lock operations and of the clock readings.
func VerifH_MonoNodeConcurrent() {
	_nodeBits, _nodeAtLowest, _epoch = 10, false, 0
	calls := symx.Param("calls", 2)
	n := &MonoNode{}
	n.time = int64(symx.Uint16("timeOff") & 1023)
	n.node, n.step = 5, int64(symx.Uint16("step")&4095)
	clock := n.time // ghost: the last reading of the monotonic clock
	var stalled int64
	symx.Stub("time.Since", func(t time.Time) time.Duration {
		symx.YieldOn(&clock)
		var adv int64
		if symx.Bool("tick") || symx.GhostLoad(&stalled) >= 2 {
			adv = 1
			symx.GhostAdd(&stalled, -symx.GhostLoad(&stalled))
		} else {
			symx.GhostAdd(&stalled, 1)
		}
		ms := symx.GhostAdd(&clock, adv)
		return time.Duration(ms * MsDivNs)
	})
	symx.Unwind(8)
	last := verifEnc(n.time, n.node, n.step)
	var a, b [2]int64
	symx.Go("A", func() {
		for i := 0; i < calls; i++ {
			a[i] = n.Generate()
		}
	})
	symx.Go("B", func() {
		for i := 0; i < calls; i++ {
			b[i] = n.Generate()
		}
	})
	symx.WaitQuiescent()
	for i := 0; i < calls; i++ {
		symx.Assert(a[i] > last && b[i] > last, "above the last id issued before the calls")
		for j := 0; j < calls; j++ {
			symx.Assert(a[i] != b[j], "distinct across goroutines")
		}
		_, fa, _ := IDFields(a[i])
		_, fb, _ := IDFields(b[i])
		symx.Assert(fa == 5 && fb == 5, "node field equals the configured node")
	}
	if calls == 2 {
		symx.Assert(a[1] > a[0] && b[1] > b[0], "per-goroutine strictly increasing")
	}
	symx.Reach("end")
}
