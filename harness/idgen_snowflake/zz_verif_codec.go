package snowflake

import (
	"time"

	symx "github.com/pinealctx/neptune/zzsymx"
)

// C07/H1: split/recombine identity and order isomorphism, all 64-bit non-negative ids, 6 layouts.
func VerifH_FieldsRoundTrip() {
	timeShift := verifLayout()
	var nodeMax int64 = (1 << _nodeBits) - 1
	var stepMax int64 = (1 << StepBits) - 1
	var mask int64 = (1 << timeShift) - 1
	id := symx.Int64("id")
	symx.Assume(id >= 0)
	t, n, s := IDFields(id)
	symx.Assert(verifEnc(t, n, s) == id, "recombining the fields gives back the id")
	symx.Assert(t >= 0 && n >= 0 && n <= nodeMax && s >= 0 && s <= stepMax, "fields within their widths")
	tm, n2, s2 := IDParse(id)
	symx.Assert(tm == t+_epoch && n2 == n && s2 == s, "IDParse = IDFields + epoch")
	id2 := symx.Int64("id2")
	symx.Assume(id2 >= 0)
	t2, _, _ := IDFields(id2)
	r1, r2 := id&mask, id2&mask
	symx.Assert((id < id2) == (t < t2 || (t == t2 && r1 < r2)), "ids order as (timestamp, remaining bits) pairs")
	symx.Assert((id == id2) == (t == t2 && r1 == r2), "equal ids iff equal pairs")
	symx.Reach("end")
}

func verifInstant(name string) (time.Time, int64) {
	sec, nsec := symx.Int64(name+".sec"), symx.Int64(name+".nsec")
	symx.Assume(nsec >= 0 && nsec < 1000000000)
	symx.Assume(sec >= 0 && sec < 1<<34)
	return time.Unix(sec, nsec), sec
}

// C07/H2: TimeBetweenID / TimeIDRange against the timestamp field of an arbitrary id.
func VerifH_TimeRanges() {
	timeShift := verifLayout()
	var timeMax int64 = (1 << (63 - timeShift)) - 1
	begin, bsec := verifInstant("begin")
	end, esec := verifInstant("end")
	symx.Assume(bsec <= esec)
	beginMs, endMs := bsec*SDivMs-_epoch, esec*SDivMs-_epoch
	symx.Assume(beginMs >= 0 && endMs <= timeMax) // offsets fit the timestamp width
	lo, hi := TimeBetweenID(begin, end)
	id := symx.Int64("id")
	symx.Assume(id >= 0)
	ts, _, _ := IDFields(id)
	in := lo <= id && id <= hi
	if beginMs <= ts && ts <= endMs {
		symx.Assert(in, "every id stamped between the second-truncated endpoints is inside")
	}
	if ts < beginMs || ts >= endMs+SDivMs {
		symx.Assert(!in, "no id stamped before the first or after the last endpoint's second is inside")
	}
	symx.Assert(lo <= hi && lo >= 0, "interval well formed")
	// single instant
	mn, mx := TimeIDRange(begin)
	in1 := mn <= id && id <= mx
	if ts == beginMs {
		symx.Assert(in1, "TimeIDRange contains the ids stamped at its second")
	}
	if ts < beginMs || ts >= beginMs+SDivMs {
		symx.Assert(!in1, "TimeIDRange excludes other seconds")
	}
	symx.Reach("end")
}

// C07/H1b: IDParseEx agrees with IDParse: the instant it returns is the id's millisecond timestamp.
func VerifH_IDParseEx() {
	verifLayout()
	timeLoc = time.FixedZone("CST", 8*3600) // the tz database is not read (see VerifH_CnStyleRoundTrip)
	id := symx.Int64("id")
	symx.Assume(id >= 0)
	ms, node, step := IDParse(id)
	t, n2, s2 := IDParseEx(id)
	symx.Assert(n2 == node && s2 == step, "same node and step")
	symx.Assert(t.Unix()*SDivMs+int64(t.Nanosecond())/MsDivNs == ms, "the instant is the id's millisecond timestamp")
	symx.Assert(int64(t.Nanosecond())%MsDivNs == 0, "whole milliseconds")
	symx.Reach("end")
}
