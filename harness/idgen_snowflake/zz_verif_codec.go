package snowflake

import (
	"encoding/binary"
	"time"

	symx "github.com/pinealctx/neptune/zzsymx"
)

// C07/H1: split/recombine identity and order isomorphism, all 64-bit non-negative ids, 6 layouts.
func VerifH_FieldsRoundTrip() {
	timeShift := verifLayout()
	var nodeMax int64 = (1 << _nodeBits) - 1
	var stepMax int64 = (1 << StepBits) - 1
	var mask int64 = (1 << timeShift) - 1
	id := symx.Int64("id")
	symx.Assume(id >= 0)
	t, n, s := IDFields(id)
	symx.Assert(verifEnc(t, n, s) == id, "recombining the fields gives back the id")
	symx.Assert(t >= 0 && n >= 0 && n <= nodeMax && s >= 0 && s <= stepMax, "fields within their widths")
	tm, n2, s2 := IDParse(id)
	symx.Assert(tm == t+_epoch && n2 == n && s2 == s, "IDParse = IDFields + epoch")
	id2 := symx.Int64("id2")
	symx.Assume(id2 >= 0)
	t2, _, _ := IDFields(id2)
	r1, r2 := id&mask, id2&mask
	symx.Assert((id < id2) == (t < t2 || (t == t2 && r1 < r2)), "ids order as (timestamp, remaining bits) pairs")
	symx.Assert((id == id2) == (t == t2 && r1 == r2), "equal ids iff equal pairs")
	symx.Reach("end")
}

func verifInstant(name string) (time.Time, int64) {
	sec, nsec := symx.Int64(name+".sec"), symx.Int64(name+".nsec")
	symx.Assume(nsec >= 0 && nsec < 1000000000)
	symx.Assume(sec >= 0 && sec < 1<<34)
	return time.Unix(sec, nsec), sec
}

// C07/H2: TimeBetweenID / TimeIDRange against the timestamp field of an arbitrary id.
func VerifH_TimeRanges() {
	timeShift := verifLayout()
	var timeMax int64 = (1 << (63 - timeShift)) - 1
	begin, bsec := verifInstant("begin")
	end, esec := verifInstant("end")
	symx.Assume(bsec <= esec)
	beginMs, endMs := bsec*SDivMs-_epoch, esec*SDivMs-_epoch
	symx.Assume(beginMs >= 0 && endMs <= timeMax) // offsets fit the timestamp width
	lo, hi := TimeBetweenID(begin, end)
	id := symx.Int64("id")
	symx.Assume(id >= 0)
	ts, _, _ := IDFields(id)
	in := lo <= id && id <= hi
	if beginMs <= ts && ts <= endMs {
		symx.Assert(in, "every id stamped between the second-truncated endpoints is inside")
	}
	if ts < beginMs || ts >= endMs+SDivMs {
		symx.Assert(!in, "no id stamped before the first or after the last endpoint's second is inside")
	}
	symx.Assert(lo <= hi && lo >= 0, "interval well formed")
	// single instant
	mn, mx := TimeIDRange(begin)
	in1 := mn <= id && id <= mx
	if ts == beginMs {
		symx.Assert(in1, "TimeIDRange contains the ids stamped at its second")
	}
	if ts < beginMs || ts >= beginMs+SDivMs {
		symx.Assert(!in1, "TimeIDRange excludes other seconds")
	}
	symx.Reach("end")
}

// C07/H1b: IDParseEx agrees with IDParse: the instant it returns is the id's millisecond timestamp.
func VerifH_IDParseEx() {
	verifLayout()
	timeLoc = time.FixedZone("CST", 8*3600) // the tz database is not read (see VerifH_CnStyleRoundTrip)
	id := symx.Int64("id")
	symx.Assume(id >= 0)
	ms, node, step := IDParse(id)
	t, n2, s2 := IDParseEx(id)
	symx.Assert(n2 == node && s2 == step, "same node and step")
	symx.Assert(t.Unix()*SDivMs+int64(t.Nanosecond())/MsDivNs == ms, "the instant is the id's millisecond timestamp")
	symx.Assert(int64(t.Nanosecond())%MsDivNs == 0, "whole milliseconds")
	symx.Reach("end")
}

// verifFoldZone: a time zone with daylight saving built from hand-written TZif data (the tz database is not
// read): UTC-4 "EDT" from 2021-03-14 07:00 UTC, back to UTC-5 "EST" at 2021-11-07 06:00 UTC - the wall
// clock hour 01:00-02:00 of that day occurs twice.
func verifFoldZone() *time.Location {
	b := []byte("TZif")
	b = append(b, 0)
	b = append(b, make([]byte, 15)...)
	for _, n := range []uint32{0, 0, 0, 2, 2, 8} {
		b = binary.BigEndian.AppendUint32(b, n)
	}
	b = binary.BigEndian.AppendUint32(b, uint32(1615705200))
	b = binary.BigEndian.AppendUint32(b, uint32(1636264800))
	b = append(b, 0, 1)
	b = binary.BigEndian.AppendUint32(b, uint32(0xffffffff-14400+1))
	b = append(b, 1, 0)
	b = binary.BigEndian.AppendUint32(b, uint32(0xffffffff-18000+1))
	b = append(b, 0, 4)
	b = append(b, "EDT\x00EST\x00"...)
	// (the loader looks at the current time to pre-select a zone period: any fixed reading will do)
	symx.Stub("time.now", func() (int64, int32, int64) { return 1700000000, 0, 0 })
	loc, err := time.LoadLocationFromTZData("Fold/Zone", b)
	symx.Assert(err == nil && loc != nil, "the hand-written zone loads")
	return loc
}

// C07/H2b: the time ranges depend on the instants only, not on the Location the time.Time values carry:
// begin and end in UTC, in a fixed zone, or in a zone with daylight saving, seconds in a 1024 s window
// around the end of daylight saving (the repeated wall-clock hour included), against an arbitrary id.
func VerifH_TimeRangesInZones() {
	timeShift := verifLayout()
	var timeMax int64 = (1 << (63 - timeShift)) - 1
	var loc *time.Location
	switch symx.Param("zone", 2) {
	case 0:
		loc = time.UTC
	case 1:
		loc = time.FixedZone("CST", 8*3600)
	default:
		loc = verifFoldZone()
	}
	const fallBack = 1636264800 // 2021-11-07 06:00:00 UTC
	bsec := fallBack - 512 + int64(symx.Uint16("begin.off")&1023)
	esec := fallBack - 512 + int64(symx.Uint16("end.off")&1023)
	symx.Assume(bsec <= esec)
	bns, ens := int64(symx.Uint16("begin.ms")%1000)*1000000, int64(symx.Uint16("end.ms")%1000)*1000000
	begin, end := time.Unix(bsec, bns).In(loc), time.Unix(esec, ens).In(loc)
	beginMs, endMs := bsec*SDivMs-_epoch, esec*SDivMs-_epoch
	symx.Assume(beginMs >= 0 && endMs <= timeMax)
	lo, hi := TimeBetweenID(begin, end)
	id := symx.Int64("id")
	symx.Assume(id >= 0)
	ts, _, _ := IDFields(id)
	in := lo <= id && id <= hi
	if beginMs <= ts && ts <= endMs {
		symx.Assert(in, "every id stamped between the second-truncated endpoints is inside")
	}
	if ts < beginMs || ts >= endMs+SDivMs {
		symx.Assert(!in, "no id stamped before the first or after the last endpoint's second is inside")
	}
	symx.Assert(lo <= hi && lo >= 0, "interval well formed")
	mn, mx := TimeIDRange(begin)
	in1 := mn <= id && id <= mx
	if ts == beginMs {
		symx.Assert(in1, "TimeIDRange contains the ids stamped at its second")
	}
	if ts < beginMs || ts >= beginMs+SDivMs {
		symx.Assert(!in1, "TimeIDRange excludes other seconds")
	}
	symx.Reach("end")
}
