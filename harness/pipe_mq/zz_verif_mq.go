package mq

import (
	symx "github.com/pinealctx/neptune/zzsymx"
)

type verifPopRes struct {
	item interface{}
	err  error
}

// C12: two-level queue: control messages before requests, each level FIFO with prior adds at the
// front, separate bounds, close / try-close / try-clear semantics.
func VerifH_MQHistory() {
	cc := symx.Concrete(symx.Int("ctrlCap"), 0, symx.Param("maxCap", 1))
	rc := symx.Concrete(symx.Int("reqCap"), 0, symx.Param("maxCap", 1))
	q := NewMQ(WithQCtrlSize(cc), WithQReqSize(rc))
	symx.Assert(ErrClosed != nil && ErrCtrlQFull != nil && ErrReqQFull != nil && ErrCtrlQFull != ErrReqQFull, "sentinel errors are initialised and distinct")
	var ctrl, req []int
	closed, cleared := false, false
	next := 1
	steps := symx.Param("steps", 3)
	for s := 0; s < steps; s++ {
		op := symx.Concrete(symx.Int("op"), 0, 9)
		id := next
		next++
		switch op {
		case 0:
			err := q.AddCtrl(id)
			switch {
			case closed:
				symx.Assert(err == ErrClosed, "closed queue refuses every add")
			case cc > 0 && len(ctrl) >= cc:
				symx.Assert(err == ErrCtrlQFull, "control level refuses exactly at its capacity")
			default:
				symx.Assert(err == nil, "control add accepted")
				ctrl = append(ctrl, id)
			}
		case 1:
			err := q.AddPriorCtrl(id)
			if closed {
				symx.Assert(err == ErrClosed, "closed queue refuses every add")
			} else {
				symx.Assert(err == nil, "prior control add ignores the bound")
				ctrl = append([]int{id}, ctrl...)
			}
		case 2:
			err := q.AddReq(id)
			switch {
			case closed:
				symx.Assert(err == ErrClosed, "closed queue refuses every add")
			case rc > 0 && len(req) >= rc:
				symx.Assert(err == ErrReqQFull, "request level refuses exactly at its capacity")
			default:
				symx.Assert(err == nil, "request add accepted")
				req = append(req, id)
			}
		case 3:
			err := q.AddPriorReq(id)
			if closed {
				symx.Assert(err == ErrClosed, "closed queue refuses every add")
			} else {
				symx.Assert(err == nil, "prior request add ignores the bound")
				req = append([]int{id}, req...)
			}
		case 4, 5:
			anyway := op == 5
			var r verifPopRes
			t := symx.Go("consumer", func() {
				if anyway {
					r.item, r.err = q.PopAnyway()
				} else {
					r.item, r.err = q.Pop()
				}
			})
			symx.WaitQuiescent()
			n := len(ctrl) + len(req)
			switch {
			case (closed && !anyway) || (closed && n == 0):
				symx.Assert(symx.Done(t) && r.err == ErrClosed && r.item == nil, "Pop on a closed queue fails (PopAnyway only once drained)")
			case len(ctrl) > 0:
				symx.Assert(symx.Done(t) && r.err == nil && r.item.(int) == ctrl[0], "control messages come before requests")
				ctrl = ctrl[1:]
			case len(req) > 0:
				symx.Assert(symx.Done(t) && r.err == nil && r.item.(int) == req[0], "then the front request")
				req = req[1:]
			default:
				symx.Assert(symx.Blocked(t), "pop on an open empty queue blocks")
				q.Close()
				closed = true
				symx.WaitQuiescent()
				symx.MustFinish(t, "close releases a blocked consumer")
				symx.Assert(r.err == ErrClosed, "released by close")
			}
		case 6:
			q.Close()
			closed = true
		case 7:
			ok := q.TryClose()
			if !closed && len(ctrl)+len(req) == 0 {
				closed = true
			}
			symx.Assert(ok == closed, "try-close succeeds exactly when the queue is empty (or already closed)")
		case 8:
			ok := q.TryClear()
			if !cleared && closed && len(ctrl)+len(req) == 0 {
				cleared = true
			}
			symx.Assert(ok == cleared, "try-clear succeeds exactly when the queue is closed and empty")
		case 9:
			symx.Assert(q.IsClosed() == closed, "IsClosed")
		}
	}
	for len(ctrl)+len(req) > 0 {
		it, err := q.PopAnyway()
		symx.Assert(err == nil, "PopAnyway drains the remaining items")
		if len(ctrl) > 0 {
			symx.Assert(it.(int) == ctrl[0], "control first, in order")
			ctrl = ctrl[1:]
		} else {
			symx.Assert(it.(int) == req[0], "requests in order")
			req = req[1:]
		}
	}
	symx.Reach("end")
}

// C13 for the two-level queue.
func VerifH_MQWakeups() {
	q := NewMQ()
	k := symx.Param("consumers", 2)
	res := make([]verifPopRes, k)
	ts := make([]symx.ThreadID, k)
	anyways := make([]bool, k)
	for i := 0; i < k; i++ {
		i := i
		anyway := symx.Bool("anyway")
		anyways[i] = anyway
		ts[i] = symx.Go("consumer", func() {
			if anyway {
				res[i].item, res[i].err = q.PopAnyway()
			} else {
				res[i].item, res[i].err = q.Pop()
			}
		})
	}
	symx.WaitQuiescent()
	switch symx.Concrete(symx.Int("scenario"), 0, 3) {
	case 0:
		if symx.Bool("tryClose") {
			symx.Assert(q.TryClose(), "try-close on an empty queue")
		} else {
			q.Close()
		}
		symx.WaitQuiescent()
		for i := 0; i < k; i++ {
			symx.MustFinish(ts[i], "close releases every blocked consumer")
			symx.Assert(res[i].err == ErrClosed, "released by close")
		}
	case 1:
		symx.Go("producerA", func() { _ = q.AddReq(1) })
		symx.Go("producerB", func() {
			for j := 2; j <= k; j++ {
				_ = q.AddCtrl(j)
			}
		})
		symx.WaitQuiescent()
		seen := map[int]bool{}
		for i := 0; i < k; i++ {
			symx.MustFinish(ts[i], "k adds release k blocked consumers")
			symx.Assert(res[i].err == nil, "released by an add")
			id := res[i].item.(int)
			symx.Assert(id >= 1 && id <= k && !seen[id], "k distinct items")
			seen[id] = true
		}
	case 2:
		symx.Go("producer", func() { _ = q.AddCtrl(1); q.Close() })
		symx.WaitQuiescent()
		got := 0
		for i := 0; i < k; i++ {
			symx.MustFinish(ts[i], "add then close releases every blocked consumer")
			if res[i].err == nil {
				symx.Assert(res[i].item.(int) == 1, "the item added")
				got++
			} else {
				symx.Assert(res[i].err == ErrClosed, "closed")
			}
		}
		symx.Assert(got <= 1, "handed out at most once")
	case 3: // add, close, then look (ghost observer under the queue's lock) whether the item is still queued:
		// if it is, it was not taken before the close, and after close only PopAnyway may hand it out
		if symx.Bool("ctrlItem") {
			_ = q.AddCtrl(1)
		} else {
			_ = q.AddReq(1)
		}
		q.Close()
		q.lock.Lock()
		remaining := q.ctrlList.Len() + q.reqList.Len()
		q.lock.Unlock()
		symx.WaitQuiescent()
		for i := 0; i < k; i++ {
			symx.MustFinish(ts[i], "add then close releases every blocked consumer")
			if res[i].err == nil {
				symx.Assert(res[i].item.(int) == 1, "the item added")
				symx.Assert(anyways[i] || remaining == 0, "after close Pop fails even if items remain: an item still queued when Close returned is handed out by PopAnyway only")
			} else {
				symx.Assert(res[i].err == ErrClosed, "closed")
			}
		}
	}
	symx.Reach("end")
}
