package remap

import (
	"math"

	symx "github.com/pinealctx/neptune/zzsymx"
)

type verifHit struct{ h uint64 }

func (v verifHit) Hit() uint64 { return v.h }

type verifBs struct{ b []byte }

func (v verifBs) ToBytes() []byte { return v.b }

func verifCheckMod(r *ReMap, key interface{}, u uint64, what string) {
	i := r.SimpleIndex(key)
	symx.Assert(i >= 0 && uint64(i) < r.numbs, what+": index in [0, shards)")
	symx.Assert(uint64(i) == u%r.numbs, what+": index = uint64(key) mod shards")
	symx.Assert(r.SimpleIndex(key) == i, what+": deterministic")
}

// C17/H1: modulo routing, every integer kind at full width, symbolic shard count in [1, 2^63).
func VerifH_SimpleIndex() {
	p := symx.Uint64("shards")
	symx.Assume(p >= 1 && p < 1<<63)
	r := &ReMap{numbs: p} // the boundary table is not consulted on the modulo route
	switch symx.Concrete(symx.Int("kind"), 0, 10) {
	case 0:
		v := symx.Uint8("v")
		verifCheckMod(r, v, uint64(v), "byte")
	case 1:
		v := symx.Int8("v")
		verifCheckMod(r, v, uint64(v), "int8")
	case 2:
		v := symx.Int16("v")
		verifCheckMod(r, v, uint64(v), "int16")
	case 3:
		v := symx.Uint16("v")
		verifCheckMod(r, v, uint64(v), "uint16")
	case 4:
		v := symx.Int32("v")
		verifCheckMod(r, v, uint64(v), "int32")
	case 5:
		v := symx.Uint32("v")
		verifCheckMod(r, v, uint64(v), "uint32")
	case 6:
		v := symx.Int64("v")
		verifCheckMod(r, v, uint64(v), "int64")
	case 7:
		v := symx.Uint64("v")
		verifCheckMod(r, v, v, "uint64")
	case 8:
		v := symx.Int("v")
		verifCheckMod(r, v, uint64(v), "int")
	case 9:
		v := symx.Uint("v")
		verifCheckMod(r, v, uint64(v), "uint")
	case 10:
		v := symx.Uint64("v")
		verifCheckMod(r, verifHit{v}, v, "HitGroup")
	}
	symx.Reach("end")
}

// C17/H2: the boundary table built by the real NewReMap, searched with an arbitrary hash value.
func VerifH_SearchIndex() {
	n := symx.Param("shards", 73)
	r := NewReMap(WithPrime(uint64(n)))
	symx.Assert(r.Numbs() == uint64(n), "the configured shard count")
	x := symx.Uint64("hash")
	i := r.SearchIndex(x)
	symx.Assert(i >= 0 && i < n, "index in [0, shards)")
	symx.Assert(r.SearchIndex(x) == i, "deterministic")
	y := symx.Uint64("hash2")
	j := r.SearchIndex(y)
	if x <= y {
		symx.Assert(i <= j, "partition is monotone")
	}
	if n <= 7 {
		for k := 0; k < n; k++ {
			symx.Sat(i == k, "every shard receives some hash value")
		}
	}
	// the table behind it (looked at after the first lookups, so that a table built on first use is there)
	symx.Assert(len(r.nps) == n, "table has one boundary per shard")
	for k := 1; k < n; k++ {
		symx.Assert(r.nps[k-1] < r.nps[k], "boundaries strictly increasing")
	}
	symx.Assert(r.nps[n-1] == math.MaxUint64, "last boundary is MaxUint64 (covers the whole range)")
	symx.Assert(x <= r.nps[i], "hash not above its shard's boundary")
	if i > 0 {
		symx.Assert(x > r.nps[i-1], "hash above the previous boundary (unique shard, monotone partition)")
	}
	symx.Reach("end")
}

// C17/H2b: hash routing of the supported key kinds: total (no panic), in range, deterministic.
func VerifH_XHashIndex() {
	n := symx.Param("shards", 73)
	r := NewReMap(WithPrime(uint64(n)))
	var key interface{}
	switch symx.Concrete(symx.Int("kind"), 0, 10) {
	case 7:
		key = symx.Uint16("v")
	case 8:
		key = symx.Int32("v")
	case 9:
		key = symx.Uint64("v")
	case 10:
		key = symx.Int("v")
	case 0:
		key = symx.String("s", symx.Concrete(symx.Int("len"), 0, 3))
	case 1:
		key = symx.Bytes("b", symx.Concrete(symx.Int("len"), 0, 3))
	case 2:
		key = verifBs{symx.Bytes("b", 2)}
	case 3:
		key = symx.Int64("v")
	case 4:
		key = symx.Int16("v")
	case 5:
		key = symx.Uint32("v")
	case 6:
		key = symx.Int8("v")
	}
	var i, j int
	symx.NoPanic("routing a supported key panicked", func() {
		i = r.XHashIndex(key)
		j = r.XHashIndex(key)
	})
	symx.Assert(i >= 0 && i < n, "index in [0, shards)")
	symx.Assert(i == j, "deterministic")
	if n <= 7 { // (each lookup forks over the boundary table: the small tables carry this part)
		// stable: the index of a key does not depend on which other keys were routed in between
		var other interface{}
		switch symx.Concrete(symx.Int("otherKind"), 0, 3) {
		case 0:
			other = symx.Int64("o")
		case 1:
			other = symx.Uint32("o")
		case 2:
			other = symx.String("os", 2)
		case 3:
			other = symx.Uint8("o")
		}
		_ = r.XHashIndex(other)
		symx.Assert(r.XHashIndex(key) == i, "stable: the same shard after another key was routed")
	}
	// SimpleIndex falls through to the hash route for non-integer kinds
	if symx.Bool("viaSimple") {
		k := r.SimpleIndex(key)
		symx.Assert(k >= 0 && k < n, "SimpleIndex in range")
	}
	symx.Reach("end")
}

// C17/H2c: one routing table shared by concurrent callers from its first use on: two goroutines look up
// symbolic hashes (and a string key through the xxhash route) on a freshly built table - every
// interleaving, race monitor - and each gets the shard a lone caller gets: the index is stable.
func VerifH_ReMapConcurrent() {
	p := symx.Param("shards", 3)
	r := NewReMap(WithPrime(uint64(p)))
	ref := NewReMap(WithPrime(uint64(p)))
	h1, h2 := symx.Uint64("h1"), symx.Uint64("h2")
	var i1, i2, s2 int
	symx.Go("callerA", func() { i1 = r.SearchIndex(h1) })
	symx.Go("callerB", func() {
		i2 = r.SearchIndex(h2)
		s2 = r.XHashIndex("k")
	})
	symx.WaitQuiescent()
	symx.Assert(symx.OthersDone(), "both lookups return")
	symx.Assert(i1 >= 0 && i1 < p && i2 >= 0 && i2 < p && s2 >= 0 && s2 < p, "index in [0, shards)")
	symx.Assert(i1 == ref.SearchIndex(h1) && i2 == ref.SearchIndex(h2), "a concurrent first lookup gets the shard a lone caller gets")
	symx.Assert(i1 == r.SearchIndex(h1) && i2 == r.SearchIndex(h2) && s2 == r.XHashIndex("k"), "and the same shard as every later lookup: the index is stable")
	symx.Reach("end")
}

// C17/H2d: every routing table has the shard count it was constructed with - options given to an earlier
// constructor do not leak into a later one (default or explicit).
func VerifH_ReMapOptionsPerInstance() {
	p1 := symx.Concrete(symx.Int("earlierShards"), 1, 5)
	a := NewReMap(WithPrime(uint64(p1)))
	symx.Assert(a.Numbs() == uint64(p1), "the configured shard count")
	d := NewReMap()
	symx.Assert(d.Numbs() == DefaultPrime, "a table built without options has the default shard count")
	p2 := symx.Concrete(symx.Int("laterShards"), 1, 3)
	b := NewReMap(WithPrime(uint64(p2)))
	symx.Assert(b.Numbs() == uint64(p2) && a.Numbs() == uint64(p1) && d.Numbs() == DefaultPrime, "each table keeps its own shard count")
	x := symx.Uint64("hash")
	symx.Assert(a.SearchIndex(x) < p1 && d.SearchIndex(x) < int(DefaultPrime) && b.SearchIndex(x) < p2, "and routes inside it")
	symx.Reach("end")
}
