package gormx

import (
	"context"
	"database/sql"
	"fmt"
	"io"

	"gorm.io/gorm"

	symx "github.com/pinealctx/neptune/zzsymx"
)

const (
	verifEvBegin = iota + 1
	verifEvCommit
	verifEvRollback
	verifEvStep0 = 10
)

// C18/H1: Transact from source; Begin/Commit/Rollback are contract stubs (fresh *gorm.DB whose
// Error is nil or an error by symbolic choice, every call logged); each step returns nil, returns
// its own error, or panics, by symbolic choice.
func VerifH_Transact() {
	n := symx.Concrete(symx.Int("steps"), 0, symx.Param("maxSteps", 3))
	var log []int
	db := &gorm.DB{}
	beginErr, commitErr, rollbackErr := symx.NewError("begin failed"), symx.NewError("commit failed"), symx.NewError("rollback failed")
	beginFails, commitFails, rollbackFails := symx.Bool("beginFails"), symx.Bool("commitFails"), symx.Bool("rollbackFails")
	var txn *gorm.DB
	symx.Stub("(*gorm.io/gorm.DB).Begin", func(d *gorm.DB, opts ...interface{}) *gorm.DB {
		log = append(log, verifEvBegin)
		symx.Assert(d == db, "Begin called on the caller's handle")
		txn = &gorm.DB{}
		if beginFails {
			txn.Error = beginErr
		}
		return txn
	})
	symx.Stub("(*gorm.io/gorm.DB).Commit", func(d *gorm.DB) *gorm.DB {
		log = append(log, verifEvCommit)
		symx.Assert(d == txn, "Commit called on the transaction handle")
		r := &gorm.DB{}
		if commitFails {
			r.Error = commitErr
		}
		return r
	})
	symx.Stub("(*gorm.io/gorm.DB).Rollback", func(d *gorm.DB) *gorm.DB {
		log = append(log, verifEvRollback)
		symx.Assert(d == txn, "Rollback called on the transaction handle")
		r := &gorm.DB{}
		if rollbackFails {
			r.Error = rollbackErr
		}
		return r
	})
	behave := make([]int, n)
	errs := make([]error, n)
	fns := make([]GormProcFn, n)
	drawn := make([]bool, n)
	for i := 0; i < n; i++ {
		i := i
		fns[i] = func(t *gorm.DB) error {
			log = append(log, verifEvStep0+i)
			symx.Assert(t == txn, "step receives the transaction handle")
			symx.Assert(!drawn[i], "a step runs at most once")
			drawn[i] = true
			// the step's behaviour is drawn when it runs: steps that never run cost no paths
			behave[i] = symx.Concrete(symx.Int("behave"), 0, 7) // 0 ok, 1 error, 2 panic(error), 3 runtime panic (nil map write), 4 panic(string), 5 a well-known error value, 6 panic(int), 7 panic(struct)
			errs[i] = symx.NewError("step failed")
			if behave[i] == 5 {
				// the step fails with an error a driver, a context or gorm itself would hand it (possibly wrapped):
				// the transaction is still open and must be rolled back whatever the error says
				known := []error{context.Canceled, context.DeadlineExceeded, sql.ErrTxDone, sql.ErrConnDone, gorm.ErrInvalidTransaction, io.EOF, gorm.ErrRecordNotFound}
				e := known[symx.Concrete(symx.Int("knownError"), 0, len(known)-1)]
				symx.Assert(e != nil, "sentinel errors are initialised")
				if symx.Bool("wrapped") {
					e = fmt.Errorf("step: %w", e)
				}
				errs[i] = e
			}
			switch behave[i] {
			case 1, 5:
				return errs[i]
			case 2:
				panic(errs[i])
			case 3:
				var m map[string]int
				m["x"] = 1 // a runtime.Error
			case 4:
				panic("step blew up")
			case 6:
				panic(42) // a panic value need not be an error or a string
			case 7:
				panic(struct{ code int }{7})
			}
			return nil
		}
	}
	var err error
	symx.NoPanic("a panic escaped Transact", func() { err = Transact(db, fns...) })

	// reference outcome
	firstBad := -1
	for i := 0; i < n; i++ {
		if behave[i] != 0 {
			firstBad = i
			break
		}
	}
	count := func(ev int) int {
		c := 0
		for _, e := range log {
			if e == ev {
				c++
			}
		}
		return c
	}
	if n == 0 {
		symx.Assert(len(log) == 0 && err == nil, "no steps: nothing begun, nil returned")
		symx.Reach("no-steps")
		return
	}
	symx.Assert(count(verifEvBegin) == 1 && log[0] == verifEvBegin, "exactly one Begin, first")
	if beginFails {
		symx.Assert(len(log) == 1, "failed Begin: no step, no commit, no rollback")
		symx.Assert(err == beginErr, "failed Begin: its error returned")
		symx.Reach("begin-failed")
		return
	}
	symx.Assert(count(verifEvCommit)+count(verifEvRollback) == 1, "finished exactly once")
	symx.Assert(log[len(log)-1] == verifEvCommit || log[len(log)-1] == verifEvRollback, "finish is the last event")
	ran := n
	if firstBad >= 0 {
		ran = firstBad + 1
	}
	symx.Assert(len(log) == 2+ran, "steps after the first failure do not run; earlier ones ran once")
	for i := 0; i < ran; i++ {
		symx.Assert(log[1+i] == verifEvStep0+i, "steps run in order")
	}
	if firstBad < 0 {
		symx.Assert(count(verifEvCommit) == 1, "all steps succeeded: committed")
		if commitFails {
			symx.Assert(err == commitErr, "commit failure is returned")
		} else {
			symx.Assert(err == nil, "nil only when the commit succeeded")
		}
		symx.Reach("committed")
	} else {
		symx.Assert(count(verifEvRollback) == 1, "a step failed: rolled back")
		symx.Assert(err != nil, "a failed transaction never returns nil")
		if behave[firstBad] == 1 || behave[firstBad] == 5 {
			symx.Assert(err == errs[firstBad], "the first failing step's error is returned")
		}
		symx.Reach("rolled-back")
	}
}

// C18/H1b: Combine runs steps in order and stops at the first error.
func VerifH_Combine() {
	n := symx.Concrete(symx.Int("steps"), 0, symx.Param("maxSteps", 3))
	var log []int
	fails := make([]bool, n)
	errs := make([]error, n)
	fns := make([]GormProcFn, n)
	txn := &gorm.DB{}
	for i := 0; i < n; i++ {
		i := i
		fails[i] = symx.Bool("fails")
		errs[i] = symx.NewError("step failed")
		fns[i] = func(t *gorm.DB) error {
			log = append(log, i)
			symx.Assert(t == txn, "step receives the handle")
			if fails[i] {
				return errs[i]
			}
			return nil
		}
	}
	err := Combine(fns...)(txn)
	first := -1
	for i := 0; i < n; i++ {
		if fails[i] {
			first = i
			break
		}
	}
	if first < 0 {
		symx.Assert(err == nil && len(log) == n, "all ran, nil")
	} else {
		symx.Assert(err == errs[first] && len(log) == first+1, "stops at the first error and returns it")
	}
	for i := range log {
		symx.Assert(log[i] == i, "in order")
	}
	symx.Reach("end")
}
