package mline

import (
	"context"
	"time"

	"github.com/pinealctx/neptune/syncx/pipe"

	symx "github.com/pinealctx/neptune/zzsymx"
)

type verifCtx struct {
	done chan struct{}
	err  error
}

func verifNewCtx() *verifCtx                          { return &verifCtx{done: make(chan struct{})} }
func (c *verifCtx) Deadline() (time.Time, bool)       { return time.Time{}, false }
func (c *verifCtx) Done() <-chan struct{}             { return c.done }
func (c *verifCtx) Err() error                        { return c.err }
func (c *verifCtx) Value(key interface{}) interface{} { return nil }

type verifLane struct {
	running int64
	order   []int
}

// C14/H2 (hashed multi-line): equal hash, equal lane; the lane index handed to the callee is the
// lane's own and lies in [0, lanes) for every integer hash; per lane no overlap, acceptance order kept;
// Stop drains and terminates all lanes.
func VerifH_MultiLineProgram() {
	slots := symx.Param("slots", 2)
	m := NewMultiLine(pipe.WithSlotSize(slots), pipe.WithQSize(4))
	m.Run()
	lanes := make([]*verifLane, slots)
	for i := range lanes {
		lanes[i] = &verifLane{}
	}
	var ran [3]int
	var laneOf [3]int
	call := func(ctx context.Context, sIndex int, req interface{}) (interface{}, error) {
		id := req.(int)
		symx.Assert(sIndex >= 0 && sIndex < slots, "the lane index passed to the callee lies in [0, lanes)")
		ln := lanes[sIndex]
		symx.YieldOn(ln)
		n := symx.GhostAdd(&ln.running, 1)
		symx.Assert(n == 1, "calls on one lane never overlap in time")
		ran[id]++
		laneOf[id] = sIndex
		ln.order = append(ln.order, id)
		symx.YieldOn(ln)
		symx.GhostAdd(&ln.running, -1)
		return id * 10, nil
	}
	// the hashes are family parameters here (the lane arithmetic for every int is VerifH_NormalizeSlotIndex)
	h0, h1 := symx.Param("hash0", -3), symx.Param("hash1", 4)
	var r [3]interface{}
	var e [3]error
	hashes := [3]int{h0, h1, h0}
	ts := make([]symx.ThreadID, 3)
	for i := 0; i < 3; i++ {
		i := i
		if i == 2 {
			symx.WaitQuiescent() // two concurrent callers first, then a third with the first one's hash
		}
		ts[i] = symx.Go("caller", func() { r[i], e[i] = m.AsyncCall(verifNewCtx(), NewCallCtx(hashes[i], call, i)) })
	}
	symx.WaitQuiescent()
	for i := 0; i < 3; i++ {
		symx.MustFinish(ts[i], "every caller gets its result")
		symx.Assert(e[i] == nil && r[i].(int) == i*10, "each caller receives the result of its own call")
		symx.Assert(ran[i] == 1, "an accepted call runs exactly once")
		symx.Assert(laneOf[i] == m.IndexOf(hashes[i]), "the call runs on the lane of its hash")
	}
	symx.Assert(laneOf[0] == laneOf[2], "calls with equal hash run on the same lane")
	if h0 == h1 {
		symx.Assert(laneOf[0] == laneOf[1], "calls with equal hash run on the same lane")
	}
	m.Stop()
	m.Stop()
	tAfter := symx.Go("late", func() { _, e[0] = m.AsyncCall(verifNewCtx(), NewCallCtx(h0, call, 0)) })
	symx.WaitQuiescent()
	symx.MustFinish(tAfter, "a call after Stop returns at once")
	symx.Assert(e[0] == pipe.ErrQueueClosed && ran[0] == 1, "after Stop no new call is accepted")
	tW := symx.Go("waiter", func() { _ = m.WaitStop(verifNewCtx()) })
	symx.WaitQuiescent()
	symx.MustFinish(tW, "after Stop all lane goroutines terminate and the exit signal is sent")
	symx.Reach("end")
}

func (c *verifCtx) cancel() { c.err = context.Canceled; close(c.done) }

// C14/H2d (hashed multi-line, cancellation and Stop with a backlog): a gated call keeps one lane busy;
// a second caller on the same lane is cancelled while queued (or calls with a context that has already
// ended), a third on the other hash completes meanwhile; Stop with the backlog still queued: the calls
// accepted before Stop still complete, every caller gets its own result or its own context's error,
// the lanes terminate.
func VerifH_MultiLineCancel() {
	slots := symx.Param("slots", 2)
	m := NewMultiLine(pipe.WithSlotSize(slots), pipe.WithQSize(4))
	m.Run()
	lanes := make([]*verifLane, slots)
	for i := range lanes {
		lanes[i] = &verifLane{}
	}
	var ran [4]int
	gate := make(chan struct{})
	call := func(ctx context.Context, sIndex int, req interface{}) (interface{}, error) {
		id := req.(int)
		symx.Assert(sIndex >= 0 && sIndex < slots, "the lane index passed to the callee lies in [0, lanes)")
		ln := lanes[sIndex]
		symx.YieldOn(ln)
		n := symx.GhostAdd(&ln.running, 1)
		symx.Assert(n == 1, "calls on one lane never overlap in time")
		ran[id]++
		ln.order = append(ln.order, id)
		if id == 0 {
			<-gate
		}
		symx.YieldOn(ln)
		symx.GhostAdd(&ln.running, -1)
		return 100 + id, nil
	}
	h0, h1 := symx.Param("hash0", -3), symx.Param("hash1", 4)
	var r [4]interface{}
	var e [4]error
	ctxB := verifNewCtx()
	deadB := symx.Bool("contextEndedBeforeTheCall")
	if deadB {
		ctxB.cancel()
	}
	tA := symx.Go("callerA", func() { r[0], e[0] = m.AsyncCall(verifNewCtx(), NewCallCtx(h0, call, 0)) })
	symx.WaitQuiescent() // A runs on h0's lane, parked on the gate
	tB := symx.Go("callerB", func() { r[1], e[1] = m.AsyncCall(ctxB, NewCallCtx(h0, call, 1)) })
	tC := symx.Go("callerC", func() { r[2], e[2] = m.AsyncCall(verifNewCtx(), NewCallCtx(h1, call, 2)) })
	symx.WaitQuiescent()
	sameLane := m.IndexOf(h0) == m.IndexOf(h1)
	if !sameLane {
		symx.MustFinish(tC, "a busy lane does not delay calls on another lane")
	}
	cancelB := deadB || symx.Bool("cancelB")
	if deadB {
		symx.MustFinish(tB, "a caller whose context has ended returns without waiting for the lane")
	} else if cancelB {
		ctxB.cancel()
		symx.WaitQuiescent()
		symx.MustFinish(tB, "a caller whose context ended returns")
	} else {
		symx.Assert(symx.Blocked(tB), "B waits behind A on the same lane")
	}
	if cancelB {
		symx.Assert(e[1] == context.Canceled && r[1] == nil && ran[1] == 0, "B gets its own context's error; its call has not run while A keeps the lane")
	}
	stopEarly := symx.Bool("stopBeforeGate")
	if stopEarly {
		m.Stop()
		tD := symx.Go("callerD", func() { r[3], e[3] = m.AsyncCall(verifNewCtx(), NewCallCtx(h0, call, 3)) })
		symx.WaitQuiescent()
		symx.MustFinish(tD, "a call after Stop returns at once")
		symx.Assert(e[3] == pipe.ErrQueueClosed && r[3] == nil && ran[3] == 0, "after Stop no new call is accepted")
	}
	close(gate)
	symx.WaitQuiescent()
	symx.MustFinish(tA, "the gated caller gets its result")
	symx.Assert(e[0] == nil && r[0].(int) == 100 && ran[0] == 1, "caller A receives the result of its own call, run once")
	symx.MustFinish(tC, "caller C completes (accepted before Stop)")
	symx.Assert(e[2] == nil && r[2].(int) == 102 && ran[2] == 1, "caller C receives the result of its own call, run once")
	if !cancelB {
		symx.MustFinish(tB, "a call accepted before Stop still completes")
		symx.Assert(e[1] == nil && r[1].(int) == 101 && ran[1] == 1, "caller B receives the result of its own call, not another's")
		o := lanes[m.IndexOf(h0)].order
		ia, ib := -1, -1
		for i, id := range o {
			if id == 0 {
				ia = i
			}
			if id == 1 {
				ib = i
			}
		}
		symx.Assert(ia >= 0 && ib > ia, "calls on one lane start in the order they were accepted")
	}
	symx.Assert(ran[1] <= 1, "at most once")
	if !stopEarly {
		m.Stop()
	}
	tW := symx.Go("waiter", func() { _ = m.WaitStop(verifNewCtx()) })
	symx.WaitQuiescent()
	symx.MustFinish(tW, "after Stop all lane goroutines terminate and the exit signal is sent")
	symx.Reach("end")
}

// C14/H2e (hashed multi-line, placements of Stop): Stop issued before Run (the calls accepted before it
// still complete once the lanes run) and Stop issued by a call running on a lane (an actor handling its
// own shutdown request) with another call already queued behind it: Stop returns, the accepted calls
// complete with their own results, later calls are refused, every lane terminates and WaitStop reports it.
func VerifH_MultiLineStopPlacement() {
	slots := symx.Param("slots", 2)
	m := NewMultiLine(pipe.WithSlotSize(slots), pipe.WithQSize(4))
	var ran [3]int
	gate := make(chan struct{})
	fromInside := symx.Bool("stopFromInsideACall")
	earlyDone := false
	call := func(ctx context.Context, sIndex int, req interface{}) (interface{}, error) {
		id := req.(int)
		ran[id]++
		if id == 0 && fromInside {
			<-gate
			m.Stop()
		}
		return 100 + id, nil
	}
	h0 := symx.Param("hash0", -3)
	var r [3]interface{}
	var e [3]error
	if fromInside {
		m.Run()
	}
	tA := symx.Go("callerA", func() { r[0], e[0] = m.AsyncCall(verifNewCtx(), NewCallCtx(h0, call, 0)) })
	symx.WaitQuiescent()
	tB := symx.Go("callerB", func() { r[1], e[1] = m.AsyncCall(verifNewCtx(), NewCallCtx(h0, call, 1)) })
	symx.WaitQuiescent()
	symx.Assert(symx.Blocked(tA) && symx.Blocked(tB), "both calls are accepted and wait (lane busy or not yet running)")
	if fromInside {
		close(gate)
	} else {
		tS := symx.Go("stopper", func() { m.Stop() })
		symx.WaitQuiescent()
		symx.MustFinish(tS, "Stop returns without the lanes having run")
		tEarly := symx.Go("earlyWaiter", func() { _ = m.WaitStop(verifNewCtx()) })
		symx.WaitQuiescent()
		symx.Assert(symx.Blocked(tEarly), "the exit signal is not given while calls accepted before Stop are still pending")
		m.Run()
		symx.WaitQuiescent()
		symx.MustFinish(tEarly, "after Stop all lane goroutines terminate and the exit signal is sent")
		earlyDone = true
	}
	symx.WaitQuiescent()
	symx.MustFinish(tA, "a call accepted before Stop completes")
	symx.MustFinish(tB, "a call accepted before Stop completes")
	symx.Assert(e[0] == nil && r[0].(int) == 100 && ran[0] == 1, "caller A receives the result of its own call, run once")
	symx.Assert(e[1] == nil && r[1].(int) == 101 && ran[1] == 1, "caller B receives the result of its own call, run once")
	tC := symx.Go("late", func() { r[2], e[2] = m.AsyncCall(verifNewCtx(), NewCallCtx(h0, call, 2)) })
	symx.WaitQuiescent()
	symx.MustFinish(tC, "a call after Stop returns at once")
	symx.Assert(e[2] == pipe.ErrQueueClosed && ran[2] == 0, "after Stop no new call is accepted")
	if !earlyDone { // (the exit signal is a single token: the early waiter has taken it on the other branch)
		tW := symx.Go("waiter", func() { _ = m.WaitStop(verifNewCtx()) })
		symx.WaitQuiescent()
		symx.MustFinish(tW, "after Stop all lane goroutines terminate and the exit signal is sent")
	}
	symx.Reach("end")
}
