package mline

import (
	"context"
	"time"

	"github.com/pinealctx/neptune/syncx/pipe"

	symx "github.com/pinealctx/neptune/zzsymx"
)

type verifCtx struct {
	done chan struct{}
	err  error
}

func verifNewCtx() *verifCtx                          { return &verifCtx{done: make(chan struct{})} }
func (c *verifCtx) Deadline() (time.Time, bool)       { return time.Time{}, false }
func (c *verifCtx) Done() <-chan struct{}             { return c.done }
func (c *verifCtx) Err() error                        { return c.err }
func (c *verifCtx) Value(key interface{}) interface{} { return nil }

type verifLane struct {
	running int64
	order   []int
}

// C14/H2 (hashed multi-line): equal hash, equal lane; the lane index handed to the callee is the
// lane's own and lies in [0, lanes) for every integer hash; per lane no overlap, acceptance order kept;
// Stop drains and terminates all lanes.
func VerifH_MultiLineProgram() {
	slots := symx.Param("slots", 2)
	m := NewMultiLine(pipe.WithSlotSize(slots), pipe.WithQSize(4))
	m.Run()
	lanes := make([]*verifLane, slots)
	for i := range lanes {
		lanes[i] = &verifLane{}
	}
	var ran [3]int
	var laneOf [3]int
	call := func(ctx context.Context, sIndex int, req interface{}) (interface{}, error) {
		id := req.(int)
		symx.Assert(sIndex >= 0 && sIndex < slots, "the lane index passed to the callee lies in [0, lanes)")
		ln := lanes[sIndex]
		symx.YieldOn(ln)
		n := symx.GhostAdd(&ln.running, 1)
		symx.Assert(n == 1, "calls on one lane never overlap in time")
		ran[id]++
		laneOf[id] = sIndex
		ln.order = append(ln.order, id)
		symx.YieldOn(ln)
		symx.GhostAdd(&ln.running, -1)
		return id * 10, nil
	}
	// the hashes are family parameters here (the lane arithmetic for every int is VerifH_NormalizeSlotIndex)
	h0, h1 := symx.Param("hash0", -3), symx.Param("hash1", 4)
	var r [3]interface{}
	var e [3]error
	hashes := [3]int{h0, h1, h0}
	ts := make([]symx.ThreadID, 3)
	for i := 0; i < 3; i++ {
		i := i
		if i == 2 {
			symx.WaitQuiescent() // two concurrent callers first, then a third with the first one's hash
		}
		ts[i] = symx.Go("caller", func() { r[i], e[i] = m.AsyncCall(verifNewCtx(), NewCallCtx(hashes[i], call, i)) })
	}
	symx.WaitQuiescent()
	for i := 0; i < 3; i++ {
		symx.MustFinish(ts[i], "every caller gets its result")
		symx.Assert(e[i] == nil && r[i].(int) == i*10, "each caller receives the result of its own call")
		symx.Assert(ran[i] == 1, "an accepted call runs exactly once")
		symx.Assert(laneOf[i] == m.IndexOf(hashes[i]), "the call runs on the lane of its hash")
	}
	symx.Assert(laneOf[0] == laneOf[2], "calls with equal hash run on the same lane")
	if h0 == h1 {
		symx.Assert(laneOf[0] == laneOf[1], "calls with equal hash run on the same lane")
	}
	m.Stop()
	m.Stop()
	tAfter := symx.Go("late", func() { _, e[0] = m.AsyncCall(verifNewCtx(), NewCallCtx(h0, call, 0)) })
	symx.WaitQuiescent()
	symx.MustFinish(tAfter, "a call after Stop returns at once")
	symx.Assert(e[0] == pipe.ErrQueueClosed && ran[0] == 1, "after Stop no new call is accepted")
	tW := symx.Go("waiter", func() { _ = m.WaitStop(verifNewCtx()) })
	symx.WaitQuiescent()
	symx.MustFinish(tW, "after Stop all lane goroutines terminate and the exit signal is sent")
	symx.Reach("end")
}
