package tex

import (
	"bytes"
	"fmt"
	"io"

	symx "github.com/pinealctx/neptune/zzsymx"
)

// verifSize: a payload size from the menu selected by the sizeSet parameter.
func verifSize(name string) int {
	var menu []int
	switch symx.Param("sizeSet", 2) {
	case 0:
		menu = []int{0, 1, 3}
	case 1:
		menu = []int{0, 64, 65}
	case 2:
		menu = []int{0, 1, 3, 64, 65}
	default:
		menu = []int{0, 1, 2, 3, 63, 64, 65, 130}
	}
	return menu[symx.Concrete(symx.Int(name), 0, len(menu)-1)]
}

// verifCount: an argument relative to the current length: -1, 0, 1, len-1, len, len+1
func verifCount(name string, l int) int {
	switch symx.Concrete(symx.Int(name), 0, 5) {
	case 0:
		return -1
	case 1:
		return 0
	case 2:
		return 1
	case 3:
		return l - 1
	case 4:
		return l
	}
	return l + 1
}

func verifErrSame(a, b error, what string) {
	symx.Assert((a == nil) == (b == nil), what+": both fail or both succeed")
	if a != nil && b != nil {
		symx.Assert(a.Error() == b.Error(), what+": the same error")
	}
}

// reader handing out its data in symbolic chunk sizes, optionally failing
type verifSrc struct {
	data  []byte
	off   int
	fail  bool
	err   error // the error a failing source ends with (default io.ErrUnexpectedEOF)
	bad   int   // misbehaving source: 1 = returns a negative count once the data is used up, 2 = panics there
	tag   string
	calls int
	eager bool // the final error comes together with the last bytes, as io.Reader allows
}

func (r *verifSrc) Read(p []byte) (int, error) {
	if r.off >= len(r.data) && r.bad == 1 {
		return -1, nil
	}
	if r.off >= len(r.data) && r.bad == 2 {
		panic("source reader blew up")
	}
	if r.off >= len(r.data) {
		if r.fail {
			return 0, r.failure()
		}
		return 0, io.EOF
	}
	max := len(r.data) - r.off
	if len(p) < max {
		max = len(p)
	}
	n := max
	r.calls++
	if r.tag != "" && max > 1 && r.calls <= 2 && symx.Bool(r.tag) {
		n = 1 // a short read (first two calls only): one byte; otherwise everything that fits
	}
	copy(p, r.data[r.off:r.off+n])
	r.off += n
	if r.eager && r.off >= len(r.data) {
		if r.fail {
			return n, r.failure()
		}
		return n, io.EOF
	}
	return n, nil
}

func (r *verifSrc) failure() error {
	if r.err != nil {
		return r.err
	}
	return io.ErrUnexpectedEOF
}

// verifSrcErr: the error value a failing source ends with: io.ErrUnexpectedEOF, an error that wraps
// io.EOF without being it (only the bare io.EOF means a clean end), or a fresh error.
func verifSrcErr() error {
	if symx.Param("plainSources", 0) == 1 {
		return io.ErrUnexpectedEOF
	}
	switch symx.Concrete(symx.Int("srcError"), 0, 2) {
	case 1:
		return fmt.Errorf("stream aborted: %w", io.EOF)
	case 2:
		return fmt.Errorf("connection reset")
	}
	return io.ErrUnexpectedEOF
}

// writer accepting a (replayed) short count and error
type verifDst struct {
	got   []byte
	short int // accept at most len-short bytes when short > 0
	err   error
}

func (w *verifDst) Write(p []byte) (int, error) {
	n := len(p)
	if w.short > 0 && n >= w.short {
		n -= w.short
	}
	w.got = append(w.got, p[:n]...)
	return n, w.err
}

func verifCompareState(t *Buffer, s *bytes.Buffer) {
	symx.Assert(t.Len() == s.Len(), "Len agrees")
	tb, sb := t.Bytes(), s.Bytes()
	if len(tb) == len(sb) {
		for i := range tb {
			symx.Assert(tb[i] == sb[i], "unread contents agree")
		}
	}
	symx.Assert(t.String() == s.String(), "String agrees")
}

// C11/H1: a symbolic history of buffer operations on tex.Buffer and bytes.Buffer side by side.
func VerifH_BufferDifferential() {
	var t *Buffer
	var s *bytes.Buffer
	maxCtor := 3
	if symx.Param("prefix", 0) == 1 {
		maxCtor = 0 // the read prefix below builds the contents
	}
	switch symx.Concrete(symx.Int("ctor"), 0, maxCtor) {
	case 0:
		t, s = &Buffer{}, &bytes.Buffer{}
	case 1:
		init := symx.Bytes("init", verifSize("initSize"))
		t, s = NewBuffer(append([]byte(nil), init...)), bytes.NewBuffer(append([]byte(nil), init...))
	case 2:
		str := symx.String("initStr", verifSize("initSize"))
		t, s = NewBufferString(str), bytes.NewBufferString(str)
	case 3:
		n := verifSize("sized")
		t = NewSizedBuffer(n)
		s = bytes.NewBuffer(make([]byte, 0, n))
		symx.Assert(t.Len() == 0 && t.Cap() >= n, "NewSizedBuffer yields an empty buffer of at least the requested capacity")
	}
	verifCompareState(t, s)
	if symx.Param("prefix", 0) == 1 {
		// histories that start after a successful read (read offset > 0, a remembered last read): three
		// arbitrary bytes are written and one read of a symbolic kind is made on both buffers first
		pre := symx.Bytes("pre", 3)
		t.Write(pre)
		s.Write(pre)
		switch symx.Concrete(symx.Int("preRead"), 0, 2) {
		case 0:
			c1, e1 := t.ReadByte()
			c2, e2 := s.ReadByte()
			symx.Assert(c1 == c2, "ReadByte value")
			verifErrSame(e1, e2, "ReadByte")
		case 1:
			r1, z1, e1 := t.ReadRune()
			r2, z2, e2 := s.ReadRune()
			symx.Assert(r1 == r2 && z1 == z2, "ReadRune value and size")
			verifErrSame(e1, e2, "ReadRune")
		case 2:
			d1, d2 := t.Next(1), s.Next(1)
			symx.Assert(len(d1) == len(d2) && (len(d1) == 0 || d1[0] == d2[0]), "Next data")
		}
		verifCompareState(t, s)
	}
	steps := symx.Param("steps", 2)
	afterGrow := false
	for st := 0; st < steps; st++ {
		op := symx.Concrete(symx.Int("op"), 0, 14)
		wasGrow := afterGrow
		afterGrow = false
		switch op {
		case 0:
			p := symx.Bytes("w", verifSize("wsize"))
			n1, e1 := t.Write(p)
			n2, e2 := s.Write(p)
			symx.Assert(n1 == n2, "Write count")
			verifErrSame(e1, e2, "Write")
		case 1:
			p := symx.String("ws", verifSize("wsize"))
			n1, e1 := t.WriteString(p)
			n2, e2 := s.WriteString(p)
			symx.Assert(n1 == n2, "WriteString count")
			verifErrSame(e1, e2, "WriteString")
		case 2:
			c := symx.Uint8("c")
			verifErrSame(t.WriteByte(c), s.WriteByte(c), "WriteByte")
		case 3:
			r := rune(symx.Int32("rune"))
			n1, e1 := t.WriteRune(r)
			n2, e2 := s.WriteRune(r)
			symx.Assert(n1 == n2, "WriteRune count")
			verifErrSame(e1, e2, "WriteRune")
		case 4:
			k := verifSize("rsize")
			p1, p2 := make([]byte, k), make([]byte, k)
			n1, e1 := t.Read(p1)
			n2, e2 := s.Read(p2)
			symx.Assert(n1 == n2, "Read count")
			verifErrSame(e1, e2, "Read")
			for i := 0; i < n1 && i < n2; i++ {
				symx.Assert(p1[i] == p2[i], "Read data")
			}
		case 5:
			c1, e1 := t.ReadByte()
			c2, e2 := s.ReadByte()
			symx.Assert(c1 == c2, "ReadByte value")
			verifErrSame(e1, e2, "ReadByte")
		case 6:
			r1, z1, e1 := t.ReadRune()
			r2, z2, e2 := s.ReadRune()
			symx.Assert(r1 == r2 && z1 == z2, "ReadRune value and size")
			verifErrSame(e1, e2, "ReadRune")
		case 7:
			symx.Assume(!wasGrow) // Unread directly after Grow depends on bytes.Buffer's growth policy: excluded by the property
			verifErrSame(t.UnreadByte(), s.UnreadByte(), "UnreadByte")
		case 8:
			symx.Assume(!wasGrow)
			verifErrSame(t.UnreadRune(), s.UnreadRune(), "UnreadRune")
		case 9:
			n := verifCount("next", t.Len())
			var d1, d2 []byte
			p1 := symx.Panics(func() { d1 = t.Next(n) })
			p2 := symx.Panics(func() { d2 = s.Next(n) })
			symx.Assert(p1 == p2, "Next panics alike")
			symx.Assert(len(d1) == len(d2), "Next length")
			for i := 0; i < len(d1) && i < len(d2); i++ {
				symx.Assert(d1[i] == d2[i], "Next data")
			}
		case 10:
			n := verifCount("trunc", t.Len())
			p1 := symx.Panics(func() { t.Truncate(n) })
			p2 := symx.Panics(func() { s.Truncate(n) })
			symx.Assert(p1 == p2, "Truncate panics alike")
		case 11:
			t.Reset()
			s.Reset()
		case 12:
			n := verifSize("grow")
			if symx.Bool("negativeGrow") {
				n = -1
			}
			p1 := symx.Panics(func() { t.Grow(n) })
			p2 := symx.Panics(func() { s.Grow(n) })
			symx.Assert(p1 == p2, "Grow panics alike")
			afterGrow = true
		case 13:
			data := symx.Bytes("src", verifSize("srcSize"))
			fail := symx.Bool("srcFails")
			eager := symx.Bool("srcErrorWithLastBytes")
			var ferr error
			if fail {
				ferr = verifSrcErr()
			}
			bad := 0
			if !fail && !eager && symx.Param("plainSources", 0) == 0 {
				bad = symx.Concrete(symx.Int("srcMisbehaves"), 0, 2)
			}
			r1 := &verifSrc{data: data, fail: fail, err: ferr, tag: "chunk", eager: eager, bad: bad}
			if bad != 0 {
				// a source that breaks the io.Reader contract or panics: both buffers panic alike, and what
				// they hold afterwards (the caller recovered) is compared like after any other step
				r2 := &verifSrc{data: data, bad: bad}
				p1 := symx.Panics(func() { _, _ = t.ReadFrom(r1) })
				p2 := symx.Panics(func() { _, _ = s.ReadFrom(r2) })
				symx.Assert(p1 && p2, "ReadFrom panics alike on a misbehaving source")
				break
			}
			n1, e1 := t.ReadFrom(r1)
			// the second reader replays the same fragmentation is unnecessary: ReadFrom's result must not depend on it
			r2 := &verifSrc{data: data, fail: fail, err: ferr, eager: eager}
			n2, e2 := s.ReadFrom(r2)
			symx.Assert(n1 == n2, "ReadFrom count")
			verifErrSame(e1, e2, "ReadFrom")
		case 14:
			short := symx.Concrete(symx.Int("short"), 0, 1)
			var werr error
			if symx.Bool("dstFails") {
				werr = io.ErrClosedPipe
			}
			w1, w2 := &verifDst{short: short, err: werr}, &verifDst{short: short, err: werr}
			n1, e1 := t.WriteTo(w1)
			n2, e2 := s.WriteTo(w2)
			symx.Assert(n1 == n2, "WriteTo count")
			verifErrSame(e1, e2, "WriteTo")
			symx.Assert(len(w1.got) == len(w2.got), "WriteTo data length")
			for i := 0; i < len(w1.got) && i < len(w2.got); i++ {
				symx.Assert(w1.got[i] == w2.got[i], "WriteTo data")
			}
		}
		verifCompareState(t, s)
	}
	symx.Reach("end")
}

// C11/H2: ReWrite overwrites exactly the addressed bytes of the buffer (and panics exactly when pos > len).
func VerifH_BufferReWrite() {
	content := symx.Bytes("content", symx.Concrete(symx.Int("n"), 0, 5))
	t := NewBuffer(append([]byte(nil), content...))
	if symx.Bool("consumeOne") && t.Len() > 0 {
		_, _ = t.ReadByte()
	}
	before := append([]byte(nil), t.buf...)
	pos := symx.Concrete(symx.Int("pos"), 0, 6)
	p := symx.Bytes("patch", symx.Concrete(symx.Int("plen"), 0, 3))
	panicked := symx.Panics(func() { t.ReWrite(pos, p) })
	symx.Assert(panicked == (pos > len(before)), "ReWrite panics exactly when pos is beyond the buffer")
	symx.Assert(len(t.buf) == len(before), "length unchanged")
	for i := range before {
		if !panicked && i >= pos && i < pos+len(p) {
			symx.Assert(t.buf[i] == p[i-pos], "addressed byte overwritten")
		} else {
			symx.Assert(t.buf[i] == before[i], "other bytes unchanged")
		}
	}
	symx.Reach("end")
}
