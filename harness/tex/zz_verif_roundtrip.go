package tex

import (
	"encoding/base64"
	"time"

	symx "github.com/pinealctx/neptune/zzsymx"
)

// verifWindow: base (a named extreme) plus a symbolic offset in [0, span), span a power of two
// (the offset is a masked narrow input, so the engine knows its range without the solver).
//
//	base 0: 0   1: MaxInt64-span+1   2: MinInt64   3: -span+1 (window ending at 0)   4: MaxUint64-span+1 (unsigned only)
func verifWindowI64() int64 {
	span := int64(symx.Param("span", 1024))
	symx.Assume(span > 0 && span <= 1<<16 && span&(span-1) == 0)
	d := int64(symx.Uint16("d") & uint16(span-1))
	switch symx.Param("base", 0) {
	case 0:
		return d
	case 1:
		return (1<<63 - 1) - (span - 1) + d
	case 2:
		return -1<<63 + d
	case 3:
		return -(span - 1) + d
	}
	symx.Assume(false)
	return 0
}

func verifWindowU64() uint64 {
	span := uint64(symx.Param("span", 1024))
	symx.Assume(span > 0 && span <= 1<<16 && span&(span-1) == 0)
	d := uint64(symx.Uint16("d") & uint16(span-1))
	switch symx.Param("base", 0) {
	case 0:
		return d
	case 1:
		return (1<<63 - 1) - (span - 1) + d
	case 2:
		return 1<<63 + d
	case 4:
		return ^uint64(0) - (span - 1) + d
	}
	symx.Assume(false)
	return 0
}

// C20/H2a: decimal string wrappers: decode(encode(v)) == v.
func VerifH_RTJsInt64() {
	v := JsInt64(verifWindowI64())
	b, err := v.MarshalJSON()
	symx.Assert(err == nil, "JsInt64 encodes")
	var back JsInt64
	err = back.UnmarshalJSON(b)
	symx.Assert(err == nil && back == v, "JsInt64: decoding the encoder's output gives back the value")
	symx.Reach("end")
}

func VerifH_RTJsUInt64() {
	v := JsUInt64(verifWindowU64())
	b, err := v.MarshalJSON()
	symx.Assert(err == nil, "JsUInt64 encodes")
	var back JsUInt64
	err = back.UnmarshalJSON(b)
	symx.Assert(err == nil && back == v, "JsUInt64: decoding the encoder's output gives back the value")
	symx.Reach("end")
}

func VerifH_RTUnixStamp() {
	v := UnixStamp(verifWindowI64())
	b, err := v.MarshalJSON()
	symx.Assert(err == nil, "UnixStamp encodes")
	var back UnixStamp
	err = back.UnmarshalJSON(b)
	symx.Assert(err == nil && back == v, "UnixStamp: decoding the encoder's output gives back the value")
	symx.Reach("end")
}

func VerifH_RTJsUnixTime() {
	sec := verifWindowI64()
	v := JsUnixTime(time.Unix(sec, 0))
	b, err := v.MarshalJSON()
	symx.Assert(err == nil, "JsUnixTime encodes")
	var back JsUnixTime
	err = back.UnmarshalJSON(b)
	symx.Assert(err == nil && time.Time(back).Unix() == sec, "JsUnixTime: decoding the encoder's output gives back the second")
	symx.Reach("end")
}

// C20/H2b: hex and base-32 integer strings. The value has `digits` symbolic low digits under a
// concrete high part (hi 0: zero, 1: all ones, 2: 0111… i.e. the signed maximum, 3: 1000… the signed minimum).
func verifRadixValue(bitsPerDigit uint) uint64 {
	w := uint(symx.Param("digits", 3)) * bitsPerDigit
	symx.Assume(w < 64)
	v := symx.Uint64("v")
	var hi uint64
	switch symx.Param("hi", 0) {
	case 0:
		hi = 0
	case 1:
		hi = ^uint64(0)
	case 2:
		hi = 1<<63 - 1
	case 3:
		hi = 1 << 63
	default:
		symx.Assume(false)
	}
	symx.Assume(v>>w == hi>>w)
	return v
}

func VerifH_RTHex() {
	u := verifRadixValue(4)
	s := U64Hex(u)
	back, err := HexU64(s)
	symx.Assert(err == nil && back == u, "HexU64(U64Hex(u)) == u")
	i := int64(u)
	si := I64Hex(i)
	backi, err := HexI64(si)
	symx.Assert(err == nil && backi == i, "HexI64(I64Hex(i)) == i")
	symx.Reach("end")
}

func VerifH_RTBase32() {
	u := verifRadixValue(5)
	s := U64HexV2(u)
	back, err := HexU64V2(s)
	symx.Assert(err == nil && back == u, "HexU64V2(U64HexV2(u)) == u")
	i := int64(u)
	si := I64HexV2(i)
	backi, err := HexI64V2(si)
	symx.Assert(err == nil && backi == i, "HexI64V2(I64HexV2(i)) == i")
	symx.Reach("end")
}

// C20/H2c: slash-separated byte list.
func VerifH_RTJsByte() {
	n := symx.Param("n", 2)
	v := make(JsByte, n)
	for i := range v {
		v[i] = symx.Uint8("b")
	}
	b, err := v.MarshalJSON()
	symx.Assert(err == nil, "JsByte encodes")
	var back JsByte
	err = back.UnmarshalJSON(b)
	symx.Assert(err == nil && len(back) == n, "JsByte: the list has the same length")
	for i := range v {
		symx.Assert(back[i] == v[i], "JsByte: and the same elements")
	}
	symx.Assert(v.ToString() == string(v.ToJS()), "ToString and ToJS agree")
	// the encoder's outputs are values of their own: the text of one list still decodes to that list
	// after another list has been encoded (by any of the three encoders) in between
	w := make(JsByte, symx.Concrete(symx.Int("otherLen"), 0, 2))
	for i := range w {
		w[i] = symx.Uint8("c")
	}
	first := v.ToJS()
	var second string
	switch symx.Concrete(symx.Int("secondEncoder"), 0, 2) {
	case 0:
		second = string(w.ToJS())
	case 1:
		second = w.ToString()
	case 2:
		mb, _ := w.MarshalJSON()
		second = string(mb[1 : len(mb)-1])
	}
	var back1, back2 JsByte
	symx.Assert(back1.FromString(string(first)) == nil && len(back1) == n, "JsByte: an earlier text still decodes after a later encode")
	for i := 0; i < n && i < len(back1); i++ {
		symx.Assert(back1[i] == v[i], "JsByte: an earlier text still denotes its own list after a later encode")
	}
	symx.Assert(back2.FromString(second) == nil && len(back2) == len(w), "JsByte: the later text decodes")
	for i := 0; i < len(w) && i < len(back2); i++ {
		symx.Assert(back2[i] == w[i], "JsByte: the later text denotes the later list")
	}
	symx.Reach("end")
}

// C20/H2d: base64 bytes through the SQL adapter, as string and as []byte column values.
func VerifH_RTBase64() {
	n := symx.Param("n", 2)
	v := make(Base64Bytes, n)
	for i := range v {
		v[i] = symx.Uint8("b")
	}
	dv, err := v.Value()
	symx.Assert(err == nil, "Base64Bytes encodes")
	s, ok := dv.(string)
	symx.Assert(ok, "as a string")
	var back Base64Bytes
	if symx.Bool("asBytes") {
		err = back.Scan([]byte(s))
	} else {
		err = back.Scan(s)
	}
	symx.Assert(err == nil && len(back) == n, "Base64Bytes: the scanned value has the same length")
	for i := range v {
		symx.Assert(back[i] == v[i], "Base64Bytes: and the same bytes")
	}
	symx.Assert(back.Scan(int64(1)) != nil, "other column types are refused")
	symx.Reach("end")
}

// C20/H2e: SQL second stamps: every int64.
func VerifH_RTSQLSeconds() {
	sec := symx.Int64("sec")
	var u2 Unix2Time
	symx.Assert(u2.Scan(sec) == nil, "Unix2Time scans int64")
	dv, err := u2.Value()
	symx.Assert(err == nil && dv.(int64) == sec, "Unix2Time: Value(Scan(sec)) == sec")

	st := UnixStamp(sec)
	dv, err = st.Value()
	symx.Assert(err == nil, "UnixStamp value")
	var st2 UnixStamp
	symx.Assert(st2.Scan(dv) == nil && st2 == st, "UnixStamp: Scan(Value(s)) == s")

	q := SQLTime2Unix(sec)
	dv, err = q.Value()
	symx.Assert(err == nil, "SQLTime2Unix value")
	var q2 SQLTime2Unix
	symx.Assert(q2.Scan(dv) == nil && q2 == q, "SQLTime2Unix: Scan(Value(s)) == s")
	symx.Reach("end")
}

// C20/H2f: nanosecond stamps (JSON and SQL) on a window.
func VerifH_RTNano() {
	ns := verifWindowI64()
	var u UnixNano2Time
	symx.Assert(u.Scan(ns) == nil, "UnixNano2Time scans int64")
	dv, err := u.Value()
	symx.Assert(err == nil && dv.(int64) == ns, "UnixNano2Time: Value(Scan(ns)) == ns")
	v := JsNanoTime(time.Unix(0, ns))
	b, err := v.MarshalJSON()
	symx.Assert(err == nil, "JsNanoTime encodes")
	var back JsNanoTime
	err = back.UnmarshalJSON(b)
	symx.Assert(err == nil && time.Time(back).UnixNano() == ns, "JsNanoTime: decoding the encoder's output gives back the nanosecond")
	symx.Reach("end")
}

// C20/H2g: durations: unit 0: nanoseconds in a window around zero, 1: whole seconds, 2: whole minutes, 3: whole hours.
func VerifH_RTDuration() {
	k := int64(symx.Range("k", -int(symx.Param("span", 100)), symx.Param("span", 100)))
	var d time.Duration
	switch symx.Param("unit", 0) {
	case 0:
		d = time.Duration(k)
	case 1:
		d = time.Duration(k) * time.Second
	case 2:
		d = time.Duration(k) * time.Minute
	case 3:
		d = time.Duration(k) * time.Hour
	default:
		symx.Assume(false)
	}
	b, err := Duration(d).MarshalJSON()
	symx.Assert(err == nil, "Duration encodes")
	var back Duration
	err = back.UnmarshalJSON(b)
	symx.Assert(err == nil && back.Duration() == d, "Duration: decoding the encoder's output gives back the value")
	symx.Reach("end")
}

// C20/H2d': base64 text that is not encoder output (line breaks, padding, junk): Scan either fails or yields
// exactly the bytes the text denotes - what the standard unpadded decoder makes of it.
func VerifH_TokBase64() {
	n := symx.Param("len", 4)
	b := make([]byte, n)
	for i := range b {
		b[i] = symx.OneOf("ch", "AQgz+/\n\r= ")
	}
	text := string(b)
	want, werr := base64.RawStdEncoding.DecodeString(text)
	var got Base64Bytes
	var err error
	if symx.Bool("asBytes") {
		err = got.Scan([]byte(text))
	} else {
		err = got.Scan(text)
	}
	symx.Assert((err == nil) == (werr == nil), "Base64Bytes: accepted exactly the texts the unpadded standard decoding accepts")
	if err == nil && werr == nil {
		symx.Assert(len(got) == len(want), "Base64Bytes: exactly the bytes the text denotes (length)")
		for i := range want {
			if i < len(got) {
				symx.Assert(got[i] == want[i], "Base64Bytes: exactly the bytes the text denotes")
			}
		}
	}
	symx.Reach("end")
}
