package tex

import (
	"time"

	symx "github.com/pinealctx/neptune/zzsymx"
)

func verifDigit(c byte) bool { return c >= '0' && c <= '9' }

// verifToken builds a well-formed JSON scalar token of total length L (parameter) whose shape is a
// concrete choice and whose bytes are symbolic:
//
//	shape 0: a string  "…"  with L-2 content bytes from digits, sign, blank, junk, slash, dot
//	shape 1: a bare JSON number of L bytes (grammar enforced below)
//	shape 2: null / true / false (only when L matches)
func verifToken() []byte {
	L := symx.Param("len", 3)
	switch symx.Concrete(symx.Int("shape"), 0, 2) {
	case 0:
		symx.Assume(L >= 2)
		t := make([]byte, L)
		t[0], t[L-1] = '"', '"'
		for i := 1; i < L-1; i++ {
			t[i] = symx.OneOf("c", "0123456789-+ x/.")
		}
		return t
	case 1:
		symx.Assume(L >= 1)
		t := make([]byte, L)
		for i := range t {
			t[i] = symx.OneOf("n", "0123456789-.eE+")
		}
		symx.Assume(verifJSONNumber(t))
		return t
	}
	switch L {
	case 4:
		if symx.Bool("null") {
			return []byte("null")
		}
		return []byte("true")
	case 5:
		return []byte("false")
	}
	symx.Assume(false)
	return nil
}

// JSON number grammar: -?(0|[1-9][0-9]*)(\.[0-9]+)?([eE][+-]?[0-9]+)?
func verifJSONNumber(t []byte) bool {
	i, n := 0, len(t)
	if i < n && t[i] == '-' {
		i++
	}
	if i >= n || !verifDigit(t[i]) {
		return false
	}
	if t[i] == '0' {
		i++
	} else {
		for i < n && verifDigit(t[i]) {
			i++
		}
	}
	if i < n && t[i] == '.' {
		i++
		if i >= n || !verifDigit(t[i]) {
			return false
		}
		for i < n && verifDigit(t[i]) {
			i++
		}
	}
	if i < n && (t[i] == 'e' || t[i] == 'E') {
		i++
		if i < n && (t[i] == '+' || t[i] == '-') {
			i++
		}
		if i >= n || !verifDigit(t[i]) {
			return false
		}
		for i < n && verifDigit(t[i]) {
			i++
		}
	}
	return i == n
}

// verifDenotes: does the token denote an integer, and which one? Quoted content: optional sign and
// at least one digit, nothing else (leading zeros allowed). Bare numbers: mantissa * 10^exp when integral.
// Tokens are at most 8 bytes, so nothing overflows 64 bits.
func verifDenotes(t []byte) (bool, int64) {
	n := len(t)
	if n >= 2 && t[0] == '"' && t[n-1] == '"' {
		c := t[1 : n-1]
		i := 0
		neg := false
		if i < len(c) && (c[i] == '+' || c[i] == '-') {
			neg = c[i] == '-'
			i++
		}
		if i >= len(c) {
			return false, 0
		}
		var v int64
		for ; i < len(c); i++ {
			if !verifDigit(c[i]) {
				return false, 0
			}
			v = v*10 + int64(c[i]-'0')
		}
		if neg {
			v = -v
		}
		return true, v
	}
	if n == 0 || !(verifDigit(t[0]) || t[0] == '-') {
		return false, 0 // null, true, false
	}
	i := 0
	neg := false
	if t[i] == '-' {
		neg = true
		i++
	}
	var m int64
	for i < n && verifDigit(t[i]) {
		m = m*10 + int64(t[i]-'0')
		i++
	}
	frac := 0
	if i < n && t[i] == '.' {
		i++
		for i < n && verifDigit(t[i]) {
			m = m*10 + int64(t[i]-'0')
			frac++
			i++
		}
	}
	exp := 0
	if i < n && (t[i] == 'e' || t[i] == 'E') {
		i++
		eneg := false
		if t[i] == '+' || t[i] == '-' {
			eneg = t[i] == '-'
			i++
		}
		for i < n && verifDigit(t[i]) {
			exp = exp*10 + int(t[i]-'0')
			i++
		}
		if eneg {
			exp = -exp
		}
	}
	exp -= frac
	for exp < 0 {
		if m%10 != 0 {
			return false, 0 // not integral
		}
		m /= 10
		exp++
	}
	if m != 0 && exp > 18 {
		return false, 0 // outside int64: cannot be "exactly the value"
	}
	for ; exp > 0 && m != 0; exp-- {
		m *= 10
	}
	if neg {
		m = -m
	}
	return true, m
}

func verifCheckInt(name string, unsigned bool, emptyIsZero bool, dec func(tok []byte) (error, int64)) {
	tok := verifToken()
	var err error
	var got int64
	symx.NoPanic(name+" panicked", func() { err, got = dec(append([]byte(nil), tok...)) })
	if err == nil {
		if emptyIsZero && len(tok) == 2 && tok[0] == '"' {
			symx.Assert(got == 0, name+`: "" decodes to zero`)
			symx.Reach("accepted")
			return
		}
		isInt, want := verifDenotes(tok)
		symx.Assert(isInt, name+": accepted a token that does not denote an integer")
		symx.Assert(got == want, name+": decoded a different number than the text denotes")
		if unsigned {
			symx.Assert(want >= 0, name+": accepted a negative number")
		}
		symx.Reach("accepted")
	} else {
		symx.Reach("rejected")
	}
}

func VerifH_TokJsInt64() {
	verifCheckInt("JsInt64", false, true, func(t []byte) (error, int64) {
		var v JsInt64
		err := v.UnmarshalJSON(t)
		return err, int64(v)
	})
}
func VerifH_TokJsUInt64() {
	verifCheckInt("JsUInt64", true, true, func(t []byte) (error, int64) {
		var v JsUInt64
		err := v.UnmarshalJSON(t)
		return err, int64(v)
	})
}
func VerifH_TokJsUnixTime() {
	verifCheckInt("JsUnixTime", false, false, func(t []byte) (error, int64) {
		var v JsUnixTime
		err := v.UnmarshalJSON(t)
		if err != nil {
			return err, 0
		}
		return nil, time.Time(v).Unix()
	})
}
func VerifH_TokJsNanoTime() {
	verifCheckInt("JsNanoTime", false, false, func(t []byte) (error, int64) {
		var v JsNanoTime
		err := v.UnmarshalJSON(t)
		if err != nil {
			return err, 0
		}
		return nil, time.Time(v).UnixNano()
	})
}
func VerifH_TokUnixStamp() {
	verifCheckInt("UnixStamp", false, false, func(t []byte) (error, int64) {
		var v UnixStamp
		err := v.UnmarshalJSON(t)
		return err, int64(v)
	})
}

// Duration: a token the decoder accepts must be a quoted duration; bare numbers, null and true are not.
// (unit arithmetic of accepted quoted strings is time.ParseDuration's own; fractional units use floats
// and are outside the claim, so content bytes exclude '.')
func VerifH_TokDuration() {
	L := symx.Param("len", 3)
	var tok []byte
	switch symx.Concrete(symx.Int("shape"), 0, 2) {
	case 0:
		symx.Assume(L >= 2)
		tok = make([]byte, L)
		tok[0], tok[L-1] = '"', '"'
		for i := 1; i < L-1; i++ {
			tok[i] = symx.OneOf("c", "0123456789-+ smhx")
		}
	case 1:
		symx.Assume(L >= 1)
		tok = make([]byte, L)
		for i := range tok {
			tok[i] = symx.OneOf("n", "0123456789-eE+")
		}
		symx.Assume(verifJSONNumber(tok))
	default:
		symx.Assume(L == 4)
		tok = []byte("null")
		if symx.Bool("true") {
			tok = []byte("true")
		}
	}
	var d Duration
	var err error
	symx.NoPanic("Duration panicked", func() { err = d.UnmarshalJSON(append([]byte(nil), tok...)) })
	if err == nil {
		symx.Assert(tok[0] == '"' && tok[len(tok)-1] == '"', "Duration: accepted a token that is not a string")
		want, perr := time.ParseDuration(string(tok[1 : len(tok)-1]))
		symx.Assert(perr == nil && time.Duration(d) == want, "Duration: value is what the quoted text denotes")
		symx.Reach("accepted")
	} else {
		symx.Reach("rejected")
	}
}

// JsByte: accepted tokens are strings of '/'-separated integers in [0,255]; the result is exactly that list.
func VerifH_TokJsByte() {
	tok := verifToken()
	var v JsByte
	var err error
	symx.NoPanic("JsByte panicked", func() { err = v.UnmarshalJSON(append([]byte(nil), tok...)) })
	if err != nil {
		symx.Reach("rejected")
		return
	}
	n := len(tok)
	symx.Assert(n >= 2 && tok[0] == '"' && tok[n-1] == '"', "JsByte: accepted a token that is not a string")
	c := tok[1 : n-1]
	if len(c) == 0 {
		symx.Assert(len(v) == 0, "JsByte: empty string is the empty list")
		symx.Reach("empty")
		return
	}
	// reference: split on '/', every element [+-]?digits within [0,255]
	var want []int64
	start := 0
	for i := 0; i <= len(c); i++ {
		if i == len(c) || c[i] == '/' {
			el := append(append([]byte{'"'}, c[start:i]...), '"')
			isInt, x := verifDenotes(el)
			symx.Assert(isInt, "JsByte: accepted an element that is not an integer")
			want = append(want, x)
			start = i + 1
		}
	}
	symx.Assert(len(v) == len(want), "JsByte: one byte per element")
	for i := range want {
		symx.Assert(want[i] >= 0 && want[i] <= 255, "JsByte: accepted an element outside [0,255] (wrapped byte)")
		symx.Assert(int64(v[i]) == want[i], "JsByte: element value")
	}
	symx.Reach("accepted")
}
