package priq

import (
	symx "github.com/pinealctx/neptune/zzsymx"
)

type verifEntry struct {
	pri int
	id  int
}

func (e *verifEntry) GetPriority() int { return e.pri }

// C12: priority queue history: highest priority first, FIFO among equal priorities, refusal exactly
// at capacity, nothing lost or duplicated. Priorities are symbolic.
func VerifH_PriQHistory() {
	capacity := symx.Concrete(symx.Int("capacity"), 0, symx.Param("maxCap", 3))
	q := NewPriQueue(capacity)
	var model []*verifEntry // kept in pop order
	next := 1
	steps := symx.Param("steps", 4)
	for s := 0; s < steps; s++ {
		switch symx.Concrete(symx.Int("op"), 0, 2) {
		case 0:
			e := &verifEntry{pri: symx.Int("pri"), id: next}
			next++
			err := q.Push(e)
			if len(model) >= capacity {
				symx.Assert(err == ErrQueueIsFull, "push refused exactly at capacity")
			} else {
				symx.Assert(err == nil, "push accepted below capacity")
				// insert after every entry with priority >= e.pri (stable)
				i := 0
				for i < len(model) && model[i].pri >= e.pri {
					i++
				}
				model = append(model[:i:i], append([]*verifEntry{e}, model[i:]...)...)
			}
		case 1:
			got := q.Pop()
			if len(model) == 0 {
				symx.Assert(got == nil, "Pop on an empty queue returns nil")
			} else {
				symx.Assert(got != nil && got.(*verifEntry) == model[0], "Pop: highest priority, oldest first")
				model = model[1:]
			}
		case 2:
			symx.Assert(q.Len() == len(model), "Len")
		}
	}
	for len(model) > 0 {
		got := q.Pop()
		symx.Assert(got != nil && got.(*verifEntry) == model[0], "drain in priority order, FIFO among equals")
		model = model[1:]
	}
	symx.Assert(q.Pop() == nil && q.Len() == 0, "empty at the end")
	symx.Reach("end")
}

// C13 (priority queue): producers push, consumers receive from the wait channel and then pop. At
// quiescence a non-empty queue must have a readable wait channel, and no consumer may be parked
// beside a non-empty queue.
func VerifH_PriQSignal() {
	q := NewPriQueue(8)
	np := symx.Param("producers", 2)
	nc := symx.Param("consumers", 2)
	rounds := symx.Param("rounds", 1)
	poppedBy := make([]int, nc)
	cts := make([]symx.ThreadID, nc)
	for p := 0; p < np; p++ {
		p := p
		symx.Go("producer", func() { _ = q.Push(&verifEntry{pri: p, id: p}) })
	}
	for c := 0; c < nc; c++ {
		c := c
		cts[c] = symx.Go("consumer", func() {
			for r := 0; r < rounds; r++ {
				<-q.WaitCh()
				if e := q.Pop(); e != nil {
					poppedBy[c]++
				}
			}
		})
	}
	symx.WaitQuiescent()
	popped := 0
	for c := 0; c < nc; c++ {
		popped += poppedBy[c]
	}
	// quiescent: no Push/Pop in progress, no consumer between receive and Pop
	if q.Len() > 0 {
		symx.Assert(len(q.WaitCh()) == 1, "non-empty queue at rest: the wait channel is readable")
		for c := 0; c < nc; c++ {
			symx.Assert(!symx.Blocked(cts[c]), "no consumer sleeps beside a non-empty queue")
		}
	}
	symx.Assert(popped+q.Len() == np, "nothing lost")
	symx.Reach("end")
}
