package vcode

import (
	"errors"
	"time"

	"github.com/pinealctx/neptune/tex"

	symx "github.com/pinealctx/neptune/zzsymx"
)

type verifSMS struct {
	last string
	fail bool
}

func (s *verifSMS) SendCode(areaCode, phone, code string) error {
	s.last = code
	if s.fail {
		return errors.New("sms gateway down")
	}
	return nil
}

type verifPair struct {
	area, phone string
	sent        bool
	code, hash  string
	attempts    int
	sends       int // accepted sends in the current window
	unsure      bool
	everSent    bool // a send was accepted before (the interval rule counts from it, whatever the gateway did)
	others      [3]bool // the other pairs whose cache entry was touched since this pair's entry was last touched
	lost        bool    // as many other pairs as the cache holds were touched since: the entry may have been evicted
}

// C19/H1: a symbolic history of send / verify over two (area, phone) pairs against the statement read
// as a reference automaton. Durations are in the always/never regimes under a constant clock.
func VerifH_VCodeHistory() {
	clock := time.Unix(1700000000, 0)
	symx.Stub("time.Now", func() time.Time { return clock })
	uuidN := 0
	symx.Stub("github.com/pinealctx/neptune/idgen/random.MD5UUID", func() string {
		uuidN++
		return symx.String("hash", 2)
	})
	symx.Stub("github.com/pinealctx/neptune/idgen/random.SecGenNonceStr", func(base string, n int) string {
		b := make([]byte, n)
		for i := range b {
			b[i] = symx.OneOf("digit", "0123456789")
		}
		return string(b)
	})
	cfg := &Config{CacheSize: int64(symx.Param("cacheSize", 100))}
	// every configuration dimension is symbolic unless a family parameter pins it (deeper histories
	// are affordable on a pinned configuration)
	pick := func(name string, fixed int) bool {
		if fixed >= 0 {
			return fixed == 1
		}
		return symx.Bool(name)
	}
	cfg.Mock = pick("mock", symx.Param("fixMock", -1))
	cfg.CodeLen = symx.Concrete(symx.Int("codeLen"), symx.Param("minCodeLen", 1), symx.Param("maxCodeLen", 3))
	if l := symx.Param("fixLimits", -1); l >= 0 {
		cfg.MaxCount, cfg.MaxVerifyCount = l, l
	} else {
		cfg.MaxCount = symx.Concrete(symx.Int("maxCount"), 0, symx.Param("maxLimit", 1))
		cfg.MaxVerifyCount = symx.Concrete(symx.Int("maxVerify"), 0, symx.Param("maxLimit", 1))
	}
	expired := pick("ttlElapsed", symx.Param("fixExpired", -1))
	tooFreq := pick("alwaysTooFrequent", symx.Param("fixTooFreq", -1))
	window := pick("windowNeverEnds", symx.Param("fixWindow", -1))
	cfg.TTL = tex.Duration(time.Hour)
	if expired {
		cfg.TTL = tex.Duration(-1)
	}
	cfg.MinInterval = 0
	if tooFreq {
		cfg.MinInterval = tex.Duration(time.Hour)
	}
	cfg.CounterDuration = tex.Duration(-1)
	if window {
		cfg.CounterDuration = tex.Duration(time.Hour)
	}
	sms := &verifSMS{}
	logic := NewSimpleLogic(cfg, sms, nil)
	// two distinct (area code, phone) pairs of digits; the second one splits its three digits either
	// like the first (1+2) or the other way round (2+1), so that the two pairs can differ while
	// their digits read the same in a row
	concretePairs := symx.Param("concretePairs", 0) == 1
	digits := func(name string, n int) string {
		if concretePairs { // the families about cache pressure use fixed, distinct pairs
			return map[string]string{"area0": "1", "phone0": "23", "area1": "4", "phone1": "56"}[name][:n]
		}
		b := make([]byte, n)
		for i := range b {
			b[i] = symx.OneOf(name, "0123456789")
		}
		return string(b)
	}
	pairs := [3]*verifPair{
		{area: digits("area0", 1), phone: digits("phone0", 2)},
		{},
		{area: "77", phone: "7"}, // a third pair for the families with a small cache (used when pairs=3)
	}
	if !concretePairs && symx.Bool("area1TwoDigits") {
		pairs[1].area, pairs[1].phone = digits("area1", 2), digits("phone1", 1)
	} else {
		pairs[1].area, pairs[1].phone = digits("area1", 1), digits("phone1", 2)
	}
	symx.Assume(pairs[0].area != pairs[1].area || pairs[0].phone != pairs[1].phone)
	symx.Assume(!(pairs[0].area+"-"+pairs[0].phone == "77-7") && !(pairs[1].area+"-"+pairs[1].phone == "77-7"))
	// cache pressure: the cache keeps the CacheSize most recently touched pairs. touch(i) records that pair
	// i's entry was set or read; a pair for which CacheSize other pairs were touched since its own last
	// touch may have been evicted - nothing is claimed about it from then on (lost).
	touch := func(i int) {
		pairs[i].others = [3]bool{}
		for j, q := range pairs {
			if j == i {
				continue
			}
			q.others[i] = true
			n := 0
			for _, o := range q.others {
				if o {
					n++
				}
			}
			if int64(n) >= cfg.CacheSize {
				q.lost = true
			}
		}
	}
	steps := symx.Param("steps", 3)
	for st := 0; st < steps; st++ {
		pi := symx.Concrete(symx.Int("which"), 0, symx.Param("pairs", 2)-1)
		p := pairs[pi]
		if symx.Bool("send") {
			sms.fail = !cfg.Mock && symx.Bool("smsFails")
			hash, err := logic.SendSMSCode(p.area, p.phone)
			if err != ErrSendTooFreq && err != ErrSendCountLimit {
				touch(pi) // an accepted send stores the pair's entry
			}
			if p.lost {
				continue
			}
			refused := false
			if p.everSent && tooFreq {
				symx.Assert(err == ErrSendTooFreq, "a send closer than the minimum interval to the previous one is refused")
				refused = true
			} else if window && p.sends > cfg.MaxCount+1 {
				symx.Assert(err == ErrSendCountLimit, "sends beyond the per-window count limit are refused")
				refused = true
			} else if window && p.sends > cfg.MaxCount {
				refused = err == ErrSendCountLimit // boundary: either reading of "beyond the limit"
			} else {
				symx.Assert(err != ErrSendTooFreq && err != ErrSendCountLimit, "a send within interval and count limits is not refused")
			}
			if !refused {
				if !window {
					p.sends = 0
				}
				p.sends++
				p.sent, p.hash, p.attempts, p.unsure, p.everSent = true, hash, 0, false, true
				if cfg.Mock {
					// mock mode: last CodeLen characters of the phone, left-padded with zeros
					c := p.phone
					for len(c) < cfg.CodeLen {
						c = "0" + c
					}
					p.code = c[len(c)-cfg.CodeLen:]
					symx.Assert(err == nil, "mock send succeeds")
				} else {
					p.code = sms.last
					symx.Assert((err != nil) == sms.fail, "the gateway's error is reported")
					if sms.fail {
						p.sent = false // the code never reached the user: nothing is claimed about verifying it
						p.unsure = true
					}
				}
				symx.Assert(len(p.code) == cfg.CodeLen, "generated codes have the configured length")
			}
			continue
		}
		// verify with the right or another code / hash
		code, hash := p.code, p.hash
		rightCode, rightHash := true, true
		if symx.Param("onlyRightVerify", 0) == 0 {
			rightCode, rightHash = symx.Bool("rightCode"), symx.Bool("rightHash")
		}
		if !rightCode {
			code = symx.String("otherCode", cfg.CodeLen)
			symx.Assume(code != p.code)
		}
		if !rightHash {
			hash = symx.String("otherHash", 2)
			symx.Assume(hash != p.hash)
		}
		err := logic.VerifySMSCode(p.area, p.phone, code, hash)
		if p.everSent {
			touch(pi) // a verification reads the pair's entry (if it is still there)
		}
		if p.unsure || p.lost {
			continue
		}
		if !p.sent {
			symx.Assert(err != nil, "nothing was sent to this pair: verification fails")
			continue
		}
		p.attempts++
		switch {
		case p.attempts > cfg.MaxVerifyCount+1:
			symx.Assert(err != nil, "once more than the configured number of attempts were made even the right code is rejected")
		case !rightCode || !rightHash || expired:
			symx.Assert(err != nil, "verification fails for any other code or hash, or after the lifetime")
		case p.attempts <= cfg.MaxVerifyCount:
			symx.Assert(err == nil, "the sent code with the returned hash verifies within lifetime and attempt limit")
		}
	}
	symx.Reach("end")
}

// C19/H1b: long runs on one pair (mock sender, constant clock, window never ending, no minimum interval,
// no expiry), every limit in a symbolic range: `attempts` verifications with the right code and hash
// against one sent code - beyond the attempt limit every one of them is rejected, however many were
// made; or `sends` sends in one window - beyond the per-window limit every one of them is refused.
func VerifH_VCodeLongRuns() {
	clock := time.Unix(1700000000, 0)
	symx.Stub("time.Now", func() time.Time { return clock })
	symx.Stub("github.com/pinealctx/neptune/idgen/random.MD5UUID", func() string { return "hh" })
	sendRun := symx.Bool("sendRun")
	limit, sendLimit := 3, 3
	if sendRun {
		sendLimit = symx.Int("sendLimit")
		symx.Assume(sendLimit >= symx.Param("minSendLimit", 250) && sendLimit <= symx.Param("maxSendLimit", 300))
	} else {
		limit = symx.Int("verifyLimit")
		symx.Assume(limit >= 0 && limit <= symx.Param("maxVerifyLimit", 40))
	}
	cfg := &Config{CacheSize: 100, Mock: true, CodeLen: 2, MaxCount: sendLimit, MaxVerifyCount: limit}
	cfg.TTL = tex.Duration(time.Hour)
	cfg.MinInterval = 0
	cfg.CounterDuration = tex.Duration(time.Hour)
	logic := NewSimpleLogic(cfg, &verifSMS{}, nil)
	hash, err := logic.SendSMSCode("1", "23")
	symx.Assert(err == nil && hash == "hh", "mock send succeeds")
	if !sendRun {
		attempts := symx.Param("attempts", 300)
		for i := 1; i <= attempts; i++ {
			err := logic.VerifySMSCode("1", "23", "23", hash)
			if i <= limit {
				symx.Assert(err == nil, "the sent code with the returned hash verifies within lifetime and attempt limit")
			} else if i > limit+1 {
				symx.Assert(err != nil, "once more than the configured number of attempts were made even the right code is rejected")
			}
		}
		symx.Reach("verify-run")
		return
	}
	sends := symx.Param("sends", 310)
	for i := 2; i <= sends; i++ { // the first send was made above
		_, err := logic.SendSMSCode("1", "23")
		if i <= sendLimit {
			symx.Assert(err == nil, "a send within interval and count limits is not refused")
		} else if i > sendLimit+2 {
			symx.Assert(err == ErrSendCountLimit, "sends beyond the per-window count limit are refused")
		}
	}
	symx.Reach("send-run")
}
