package stringx

// Conformance programs for the engine: ordinary Go constructs a maintainer's change may bring
// into the code under test. Each is run symbolically and natively (translator validation).

import (
	"bytes"
	"errors"
	"fmt"
	"sort"
	"strconv"
	"strings"
	"sync"
	"sync/atomic"

	symx "github.com/pinealctx/neptune/zzsymx"
)

type confShape interface{ Area() int }
type confRect struct{ w, h int }
type confSq struct{ confRect }

func (r confRect) Area() int   { return r.w * r.h }
func (r *confRect) Grow(d int) { r.w += d }

type confErr struct{ code int }

func (e *confErr) Error() string { return "conf " + strconv.Itoa(e.code) }

func confSum[T int | int64 | uint8](xs ...T) (s T) {
	for _, x := range xs {
		s += x
	}
	return
}

type confStack[T any] struct{ items []T }

func (s *confStack[T]) Push(x T) { s.items = append(s.items, x) }
func (s *confStack[T]) Pop() (T, bool) {
	var zero T
	if len(s.items) == 0 {
		return zero, false
	}
	x := s.items[len(s.items)-1]
	s.items = s.items[:len(s.items)-1]
	return x, true
}

func VerifH_ConfOnceAtomic() {
	var once sync.Once
	n := 0
	for i := 0; i < 3; i++ {
		once.Do(func() { n++ })
	}
	symx.Assert(n == 1, "sync.Once runs once")
	var a atomic.Int64
	a.Store(5)
	a.Add(int64(symx.Range("d", 0, 3)))
	symx.Assert(a.Load() >= 5 && a.Load() <= 8, "atomic.Int64")
	var b atomic.Bool
	symx.Assert(b.CompareAndSwap(false, true) && b.Load(), "atomic.Bool CAS")
	var u atomic.Uint32
	u.Add(^uint32(0))
	symx.Assert(u.Load() == ^uint32(0), "atomic.Uint32 wraps")
	var p atomic.Pointer[confRect]
	symx.Assert(p.Load() == nil, "atomic.Pointer zero")
	r := &confRect{1, 2}
	p.Store(r)
	symx.Assert(p.Load() == r && p.Load().h == 2, "atomic.Pointer")
	var v atomic.Value
	v.Store("x")
	symx.Assert(v.Load().(string) == "x", "atomic.Value")
	symx.Reach("end")
}

func VerifH_ConfSort() {
	a, b, c := symx.Int("a"), symx.Int("b"), symx.Int("c")
	symx.Assume(a > -100 && a < 100 && b > -100 && b < 100 && c > -100 && c < 100)
	xs := []int{a, b, c}
	sort.Ints(xs)
	symx.Assert(xs[0] <= xs[1] && xs[1] <= xs[2], "sort.Ints sorts")
	symx.Assert(xs[0]+xs[1]+xs[2] == a+b+c, "sort.Ints permutes")
	ys := []confRect{{a, 1}, {b, 1}, {c, 1}}
	sort.Slice(ys, func(i, j int) bool { return ys[i].w > ys[j].w })
	symx.Assert(ys[0].w >= ys[1].w && ys[1].w >= ys[2].w, "sort.Slice sorts descending")
	i := sort.SearchInts(xs, b)
	symx.Assert(i < 3 && xs[i] == b, "sort.SearchInts finds a member")
	symx.Reach("end")
}

func VerifH_ConfStrings() {
	s := symx.String("s", 3)
	var sb strings.Builder
	sb.WriteString(s)
	sb.WriteByte('/')
	sb.WriteString(strconv.Itoa(42))
	out := sb.String()
	symx.Assert(len(out) == 6 && strings.HasSuffix(out, "/42") && strings.HasPrefix(out, s), "strings.Builder")
	parts := strings.Split(out, "/")
	if !strings.Contains(s, "/") {
		symx.Assert(len(parts) == 2 && parts[0] == s && parts[1] == "42", "strings.Split")
		symx.Assert(strings.Index(out, "/") == 3, "strings.Index")
	}
	symx.Assert(strings.Join([]string{"a", s, "b"}, "-") == "a-"+s+"-b", "strings.Join")
	symx.Assert(strings.Repeat("ab", 3) == "ababab", "strings.Repeat")
	symx.Assert(strings.ToUpper("aZ9") == "AZ9" && strings.TrimSpace("  x ") == "x", "ToUpper/TrimSpace")
	var bb bytes.Buffer
	bb.WriteString(s)
	bb.Write([]byte{1, 2})
	symx.Assert(bb.Len() == 5 && bytes.Equal(bb.Bytes()[:3], []byte(s)), "bytes.Buffer")
	n, err := strconv.Atoi("-" + strconv.Itoa(symx.Range("k", 0, 99)))
	symx.Assert(err == nil && n <= 0 && n >= -99, "Itoa/Atoi")
	_, err = strconv.Atoi("x1")
	symx.Assert(err != nil, "Atoi rejects")
	bv, err := strconv.ParseBool("true")
	symx.Assert(bv && err == nil, "ParseBool")
	cnt := 0
	for i, r := range "aé😀" {
		cnt += i + int(r&1)
	}
	symx.Assert(cnt == 0+1+3+1+1+0 && len([]rune("aé😀")) == 3, "range over string / []rune")
	symx.Reach("end")
}

func VerifH_ConfMapsSlices() {
	k := symx.Range("k", 0, 3)
	m := map[int]string{0: "a", 1: "b", 2: "c"}
	delete(m, k)
	_, ok := m[k]
	symx.Assert(!ok && (len(m) == 2 || k == 3), "map delete")
	sum := 0
	for key := range m {
		sum += key
	}
	symx.Assert(sum == 3-k || k == 3, "map iteration visits every key once")
	xs := make([]int, 0, 1)
	for i := 0; i < 5; i++ {
		xs = append(xs, i*i)
	}
	ys := xs[1:3]
	ys = append(ys, 99) // writes through to xs[3] (capacity left)
	symx.Assert(xs[3] == 99 && len(ys) == 3, "append aliases while capacity lasts")
	zs := append([]int(nil), xs...)
	zs[0] = -1
	symx.Assert(xs[0] == 0, "copy by append is independent")
	copy(xs[1:], xs) // overlapping
	symx.Assert(xs[1] == 0 && xs[2] == 1 && xs[4] == 99, "overlapping copy")
	var arr [3][2]int
	arr2 := arr
	arr2[1][1] = 7
	symx.Assert(arr[1][1] == 0, "arrays are values")
	symx.Reach("end")
}

func VerifH_ConfControl() {
	x := symx.Range("x", 0, 6)
	res := 0
outer:
	for i := 0; i < 4; i++ {
		for j := 0; j < 4; j++ {
			if j == 2 {
				continue outer
			}
			if i == 3 {
				break outer
			}
			res++
		}
	}
	symx.Assert(res == 6, "labelled break/continue")
	r := ""
	switch {
	case x < 2:
		r += "a"
		fallthrough
	case x < 4:
		r += "b"
	default:
		r += "c"
	}
	symx.Assert((x < 2 && r == "ab") || (x >= 2 && x < 4 && r == "b") || (x >= 4 && r == "c"), "switch with fallthrough")
	order := ""
	func() {
		defer func() {
			if p := recover(); p != nil {
				order += "R"
			}
		}()
		defer func() { order += "2" }()
		defer func() { order += "1" }()
		var mm map[string]int
		if x == 6 {
			mm["boom"] = 1
		}
		order += "0"
	}()
	symx.Assert((x == 6 && order == "12R") || (x != 6 && order == "012"), "defer order and recover")
	var sh uint = uint(x) + 60
	symx.Assert((uint64(1)<<sh == 0) == (sh >= 64), "shift counts >= width give 0")
	m7, m128, m1 := -7+x-x, int8(-128), int8(-1)
	symx.Assert(m7/2 == -3 && m7%2 == -1 && m128/m1 == -128, "truncated division, MinInt8/-1 wraps")
	i16, u32 := int16(-1), uint32(1)
	symx.Assert(uint8(i16) == 255 && int32(u32<<31) < 0 && int64(int8(x)-7) < 0, "conversions")
	fs := make([]func() int, 3)
	for i := range fs {
		fs[i] = func() int { return i * 10 }
	}
	symx.Assert(fs[0]() == fs[2]() && fs[2]() == 20, "closures share the loop variable (go.mod < 1.22)")
	symx.Reach("end")
}

func VerifH_ConfTypes() {
	w := symx.Range("w", 1, 5)
	var s confShape = confSq{confRect{w, w}}
	symx.Assert(s.Area() == w*w, "embedded method through interface")
	r := confRect{w, 2}
	grow := r.Grow
	grow(3)
	symx.Assert(r.w == w+3, "method value with pointer receiver")
	switch v := s.(type) {
	case confRect:
		symx.Assert(false, "wrong dynamic type")
	case confSq:
		symx.Assert(v.w == w, "type switch")
	}
	_, isRect := s.(confRect)
	symx.Assert(!isRect, "comma-ok type assertion")
	var err error = &confErr{w}
	wrapped := fmt.Errorf("ctx: %w", err)
	var ce *confErr
	symx.Assert(errors.As(wrapped, &ce) && ce.code == w && errors.Is(wrapped, err), "errors.As/Is through %w")
	symx.Assert(errors.Unwrap(wrapped) == err && wrapped.Error() == "ctx: conf "+strconv.Itoa(w), "Unwrap/Error text")
	j := errors.Join(err, errors.New("other"))
	symx.Assert(errors.Is(j, err), "errors.Join")
	symx.Assert(confSum(1, 2, w) == 3+w && confSum[uint8](200, 100) == 44, "generic function")
	var st confStack[string]
	st.Push("a")
	st.Push("b")
	top, ok := st.Pop()
	symx.Assert(ok && top == "b" && len(st.items) == 1, "generic type")
	type pair struct {
		a int
		b string
	}
	m := map[pair]int{{1, "x"}: 1}
	m[pair{1, "x"}]++
	symx.Assert(m[pair{1, "x"}] == 2 && pair{w, "q"} == pair{w, "q"}, "struct keys and equality")
	symx.Assert(fmt.Sprintf("%d-%s-%v-%03d", w, "s", true, 7) == strconv.Itoa(w)+"-s-true-007", "Sprintf")
	symx.Assert(fmt.Sprint("a", 1, 2, "b") == "a1 2b", "Sprint spacing")
	symx.Reach("end")
}

func VerifH_ConfGoroutines() {
	var mu sync.Mutex
	var wg sync.WaitGroup
	total := 0
	ch := make(chan int, 2)
	for i := 1; i <= 2; i++ {
		wg.Add(1)
		go func(v int) {
			defer wg.Done()
			mu.Lock()
			total += v
			mu.Unlock()
			ch <- v
		}(i)
	}
	wg.Wait()
	close(ch)
	got := 0
	for v := range ch {
		got += v
	}
	symx.Assert(total == 3 && got == 3, "goroutines, WaitGroup, mutex, range over channel")
	sel := 0
	select {
	case v, ok := <-ch:
		if !ok && v == 0 {
			sel = 1
		}
	default:
		sel = 2
	}
	symx.Assert(sel == 1, "receive from closed channel")
	var rw sync.RWMutex
	rw.RLock()
	rw.RLock()
	rw.RUnlock()
	rw.RUnlock()
	rw.Lock()
	rw.Unlock()
	done := make(chan struct{})
	var once sync.Once
	for i := 0; i < 2; i++ {
		go once.Do(func() { close(done) })
	}
	<-done
	symx.Reach("end")
}
