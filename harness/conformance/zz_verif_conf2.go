package stringx

import (
	"bufio"
	"bytes"
	"container/heap"
	"container/list"
	"context"
	"encoding/binary"
	"io"
	"sort"
	"strings"
	"sync"
	"time"
	"unicode"

	symx "github.com/pinealctx/neptune/zzsymx"
)

type confHeap []int

func (h confHeap) Len() int            { return len(h) }
func (h confHeap) Less(i, j int) bool  { return h[i] < h[j] }
func (h confHeap) Swap(i, j int)       { h[i], h[j] = h[j], h[i] }
func (h *confHeap) Push(x interface{}) { *h = append(*h, x.(int)) }
func (h *confHeap) Pop() interface{} {
	old := *h
	n := len(old)
	x := old[n-1]
	*h = old[:n-1]
	return x
}

type confWeekday int

const (
	confMon confWeekday = iota + 1
	confTue
	_
	confThu
)

func confNamed(x int) (r int, err error) {
	defer func() {
		if p := recover(); p != nil {
			r, err = -1, io.ErrUnexpectedEOF
		}
	}()
	defer func() { r *= 2 }()
	if x == 0 {
		panic("zero")
	}
	return x + 1, nil
}

func VerifH_ConfContainers() {
	a, b, c := symx.Range("a", 0, 9), symx.Range("b", 0, 9), symx.Range("c", 0, 9)
	h := &confHeap{}
	heap.Init(h)
	heap.Push(h, a)
	heap.Push(h, b)
	heap.Push(h, c)
	x := heap.Pop(h).(int)
	y := heap.Pop(h).(int)
	z := heap.Pop(h).(int)
	symx.Assert(x <= y && y <= z && x+y+z == a+b+c, "container/heap pops ascending")
	l := list.New()
	l.PushBack(a)
	l.PushFront(b)
	e := l.PushBack(c)
	l.MoveToFront(e)
	symx.Assert(l.Len() == 3 && l.Front().Value.(int) == c && l.Back().Value.(int) == a, "container/list")
	xs := confHeap{c, a, b}
	sort.Sort(sort.Reverse(xs))
	symx.Assert(xs[0] >= xs[1] && xs[1] >= xs[2], "sort.Sort(sort.Reverse)")
	symx.Assert(sort.IsSorted(sort.Reverse(xs)), "sort.IsSorted")
	var m sync.Map
	m.Store("k", a)
	v, ok := m.Load("k")
	symx.Assert(ok && v.(int) == a, "sync.Map Load")
	_, loaded := m.LoadOrStore("k", 99)
	m.Delete("k")
	_, ok = m.Load("k")
	symx.Assert(loaded && !ok, "sync.Map LoadOrStore/Delete")
	symx.Reach("end")
}

func VerifH_ConfIO() {
	s := symx.String("s", 4)
	r := bufio.NewReader(strings.NewReader(s + "\nrest"))
	line, err := r.ReadString('\n')
	if !strings.Contains(s, "\n") {
		symx.Assert(err == nil && line == s+"\n", "bufio.ReadString")
	}
	all, err := io.ReadAll(r)
	symx.Assert(err == nil && len(line)+len(all) == 9, "io.ReadAll takes the rest")
	var buf bytes.Buffer
	v := symx.Uint32("v")
	symx.Assert(binary.Write(&buf, binary.BigEndian, v) == nil && buf.Len() == 4, "binary.Write")
	symx.Assert(binary.BigEndian.Uint32(buf.Bytes()) == v, "binary.BigEndian round trip")
	var back uint32
	symx.Assert(binary.Read(&buf, binary.BigEndian, &back) == nil && back == v, "binary.Read")
	w := bufio.NewWriter(&buf)
	w.WriteString("ab")
	w.WriteByte(s[0])
	symx.Assert(buf.Len() == 0, "bufio.Writer buffers")
	w.Flush()
	symx.Assert(buf.String() == "ab"+s[:1], "bufio.Writer Flush")
	fs := strings.Fields("  a b\t c\n")
	symx.Assert(len(fs) == 3 && fs[2] == "c", "strings.Fields")
	up := strings.Map(func(r rune) rune {
		if unicode.IsLower(r) {
			return unicode.ToUpper(r)
		}
		return r
	}, "aB1z")
	symx.Assert(up == "AB1Z" && unicode.IsDigit('7') && !unicode.IsSpace('x'), "strings.Map/unicode")
	symx.Assert(strings.EqualFold("Go", "GO") && strings.Count("cheese", "e") == 3 && strings.LastIndex("go gopher", "go") == 3, "EqualFold/Count/LastIndex")
	symx.Assert(strings.TrimLeft("xxabc", "x") == "abc" && strings.TrimSuffix("a.go", ".go") == "a" && strings.Replace("aaa", "a", "b", 2) == "bba", "Trim/Replace")
	symx.Reach("end")
}

func VerifH_ConfMisc() {
	x := symx.Range("x", 0, 3)
	r, err := confNamed(x)
	if x == 0 {
		symx.Assert(r == -1 && err == io.ErrUnexpectedEOF, "named results set in a recovering defer")
	} else {
		symx.Assert(r == (x+1)*2 && err == nil, "named results modified by defer")
	}
	symx.Assert(confTue == 2 && confThu == 4, "iota")
	i := 0
loop:
	if i < x {
		i++
		goto loop
	}
	symx.Assert(i == x, "goto")
	type pt struct{ x, y int }
	ps := []pt{{1, 2}, {3, 4}}
	for _, p := range ps {
		p.x = 100
	}
	symx.Assert(ps[0].x == 1, "range copies elements")
	for i := range ps {
		ps[i].x = 100
	}
	symx.Assert(ps[1].x == 100, "index writes through")
	area := confRect.Area
	symx.Assert(area(confRect{2, x}) == 2*x, "method expression")
	var np *confRect
	func() {
		defer func() { symx.Assert(recover() != nil, "nil pointer dereference panics") }()
		_ = np.w
	}()
	d := time.Duration(x)*time.Second + 500*time.Millisecond
	symx.Assert(d.Seconds() > float64(x) && d.Truncate(time.Second) == time.Duration(x)*time.Second, "time.Duration arithmetic")
	t0 := time.Unix(1700000000, 0).UTC()
	t1 := t0.Add(36 * time.Hour)
	symx.Assert(t1.Sub(t0) == 36*time.Hour && t1.After(t0) && t0.Day() == 14 && t1.Day() == 16 && t1.Hour() == 10, "time.Time Add/Sub/Day")
	symx.Assert(t0.Year() == 2023 && t0.Month() == time.November && t0.Weekday() == time.Tuesday, "civil time of a constant instant")
	var sb strings.Builder
	for i := 0; i < x; i++ {
		sb.WriteRune('é')
	}
	symx.Assert(sb.Len() == 2*x, "WriteRune")
	symx.Reach("end")
}

func VerifH_ConfContext() {
	ctx, cancel := context.WithCancel(context.Background())
	select {
	case <-ctx.Done():
		symx.Assert(false, "not cancelled yet")
	default:
	}
	symx.Assert(ctx.Err() == nil, "live context")
	child := context.WithValue(ctx, "k", 7)
	cancel()
	<-child.Done()
	symx.Assert(child.Err() == context.Canceled && child.Value("k").(int) == 7, "cancellation reaches the child; values")
	cancel()
	symx.Reach("end")
}

type confBuf struct{ b []byte }

var confPool = sync.Pool{New: func() interface{} { return &confBuf{} }}

func VerifH_ConfPool() {
	a := confPool.Get().(*confBuf)
	a.b = append(a.b[:0], 'x')
	confPool.Put(a)
	b := confPool.Get().(*confBuf)
	// the pool may hand the same object back or make a new one
	symx.Assert(b == a || len(b.b) == 0, "sync.Pool returns a pooled or a new object")
	c := confPool.Get().(*confBuf)
	symx.Assert(c != b, "an object that was not put back is not handed out again")
	var p2 sync.Pool
	symx.Assert(p2.Get() == nil, "Get on an empty pool without New is nil")
	symx.Reach("end")
}
