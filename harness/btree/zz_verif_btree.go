package btree

import (
	symx "github.com/pinealctx/neptune/zzsymx"
)

// VerifKey is the item type of the harnesses: ordered by K, Tag tells stored copies apart.
type VerifKey struct {
	K   int64
	Tag int
}

func (a VerifKey) Less(b Item) bool { return a.K < b.(VerifKey).K }

// VerifBuild builds an arbitrary tree satisfying the structural invariant, of height <= 2 (height 3
// when param maxHeight=3, then with minimal inner nodes), directly from nodes: the shape is a
// concrete choice per path, the keys are symbolic and strictly increasing in order, every item carries
// a symbolic tag. Returns the tree and its sorted content.
func VerifBuild(degree int) (*BTree, []VerifKey) {
	t := New(degree)
	minI, maxI := t.minItems(), t.maxItems()
	maxRoot := symx.Param("maxRootItems", maxI)
	maxChild := symx.Param("maxChildItems", maxI)
	if maxRoot > maxI {
		maxRoot = maxI
	}
	if maxChild > maxI {
		maxChild = maxI
	}
	var model []VerifKey
	// Stored keys are 10, 20, 30, ... in order: the tree only ever compares keys through Less, so any
	// strictly increasing key sequence drives it through the same code (order isomorphism); the keys
	// of the operations stay fully symbolic and may coincide with, fall between, below or above them.
	nextKey := func() VerifKey {
		it := VerifKey{K: int64(10 * (len(model) + 1)), Tag: symx.Int("tag")}
		model = append(model, it)
		return it
	}
	leaf := func(n int) *node {
		nd := t.cow.newNode()
		for i := 0; i < n; i++ {
			nd.items = append(nd.items, nextKey())
		}
		return nd
	}
	var inner func(h, nItems, lo, hi int) *node
	inner = func(h, nItems, lo, hi int) *node {
		nd := t.cow.newNode()
		for i := 0; i <= nItems; i++ {
			var ch *node
			if h == 2 {
				ch = leaf(symx.Concrete(symx.Int("childItems"), lo, hi))
			} else {
				ch = inner(h-1, minI, minI, minI) // height 3: minimal inner nodes
			}
			nd.children = append(nd.children, ch)
			if i < nItems {
				nd.items = append(nd.items, nextKey())
			}
		}
		return nd
	}
	switch h := symx.Concrete(symx.Int("height"), 0, symx.Param("maxHeight", 2)); h {
	case 0:
		// nil root: the freshly constructed tree
	case 1:
		t.root = leaf(symx.Concrete(symx.Int("rootItems"), 0, maxRoot)) // 0 items: what deleting the last item leaves
	default:
		t.root = inner(h, symx.Concrete(symx.Int("rootItems"), 1, maxRoot), minI, maxChild)
	}
	t.length = len(model)
	return t, model
}

// VerifCheck: structural invariant and content against the sorted model.
func VerifCheck(t *BTree, model []VerifKey, what string) {
	symx.Assert(t.Len() == len(model), what+": Len equals the item count of the sorted set")
	var got []VerifKey
	leafDepth := -1
	var walk func(n *node, depth int, isRoot bool)
	walk = func(n *node, depth int, isRoot bool) {
		symx.Assert(len(n.items) <= t.maxItems(), what+": node within its degree bound (max)")
		if !isRoot {
			symx.Assert(len(n.items) >= t.minItems(), what+": node within its degree bound (min)")
		}
		if len(n.children) == 0 {
			if leafDepth < 0 {
				leafDepth = depth
			}
			symx.Assert(leafDepth == depth, what+": all leaves at one depth")
			for _, it := range n.items {
				got = append(got, it.(VerifKey))
			}
			return
		}
		symx.Assert(len(n.children) == len(n.items)+1, what+": inner node has items+1 children")
		for i, c := range n.children {
			walk(c, depth+1, false)
			if i < len(n.items) {
				got = append(got, n.items[i].(VerifKey))
			}
		}
	}
	if t.root != nil {
		walk(t.root, 0, true)
	}
	symx.Assert(len(got) == len(model), what+": in-order content has the size of the sorted set")
	if len(got) == len(model) {
		for i := range model {
			symx.Assert(got[i] == model[i], what+": in-order content equals the sorted set, each key with its most recently stored item")
		}
	}
}

func verifFind(model []VerifKey, k int64) (int, bool) {
	for i, m := range model {
		if m.K == k {
			return i, true
		}
		if m.K > k {
			return i, false
		}
	}
	return len(model), false
}

// model scans: items from the pivot in scan order
func VerifScan(model []VerifKey, asc bool, pivot *VerifKey, inclusive bool) []VerifKey {
	var out []VerifKey
	if asc {
		for _, m := range model {
			if pivot == nil || m.K > pivot.K || (inclusive && m.K == pivot.K) {
				out = append(out, m)
			}
		}
	} else {
		for i := len(model) - 1; i >= 0; i-- {
			m := model[i]
			if pivot == nil || m.K < pivot.K || (inclusive && m.K == pivot.K) {
				out = append(out, m)
			}
		}
	}
	return out
}

func verifCollect(f func(it ItemIterator)) []VerifKey {
	var out []VerifKey
	f(func(i Item) bool { out = append(out, i.(VerifKey)); return true })
	return out
}

func verifSame(got, want []VerifKey, what string) {
	symx.Assert(len(got) == len(want), what+": number of items visited")
	if len(got) == len(want) {
		for i := range want {
			symx.Assert(got[i] == want[i], what+": items visited in scan order")
		}
	}
}

// C03/H1: one operation of the B-tree from an arbitrary valid tree against a sorted-slice model.
func VerifH_BTreeStep() {
	t, model := VerifBuild(symx.Param("degree", 2))
	key := VerifKey{K: symx.Int64("opKey"), Tag: symx.Int("opTag")}
	symx.Assume(key.K > -(1<<62) && key.K < 1<<62)
	idx, found := verifFind(model, key.K)
	switch symx.Concrete(symx.Int("op"), 0, 12) {
	case 0:
		old := t.ReplaceOrInsert(key)
		if found {
			symx.Assert(old != nil && old.(VerifKey) == model[idx], "ReplaceOrInsert returns the replaced item")
			model[idx] = key
		} else {
			symx.Assert(old == nil, "ReplaceOrInsert of a new key returns nil")
			model = append(model[:idx:idx], append([]VerifKey{key}, model[idx:]...)...)
		}
	case 1:
		old := t.Delete(key)
		if found {
			symx.Assert(old != nil && old.(VerifKey) == model[idx], "Delete returns the removed item")
			model = append(model[:idx:idx], model[idx+1:]...)
		} else {
			symx.Assert(old == nil, "Delete of an absent key returns nil")
		}
	case 2:
		old := t.DeleteMin()
		if len(model) > 0 {
			symx.Assert(old != nil && old.(VerifKey) == model[0], "DeleteMin removes the smallest")
			model = model[1:]
		} else {
			symx.Assert(old == nil, "DeleteMin on an empty tree")
		}
	case 3:
		old := t.DeleteMax()
		if len(model) > 0 {
			symx.Assert(old != nil && old.(VerifKey) == model[len(model)-1], "DeleteMax removes the largest")
			model = model[:len(model)-1]
		} else {
			symx.Assert(old == nil, "DeleteMax on an empty tree")
		}
	case 4:
		got := t.Get(key)
		if found {
			symx.Assert(got != nil && got.(VerifKey) == model[idx], "Get returns the stored item")
		} else {
			symx.Assert(got == nil, "Get of an absent key")
		}
		symx.Assert(t.Has(key) == found, "Has")
	case 5:
		mn, mx := t.Min(), t.Max()
		if len(model) > 0 {
			symx.Assert(mn.(VerifKey) == model[0] && mx.(VerifKey) == model[len(model)-1], "Min/Max")
		} else {
			symx.Assert(mn == nil && mx == nil, "Min/Max of an empty tree")
		}
	case 6:
		verifSame(verifCollect(func(it ItemIterator) { t.AscendGreaterOrEqual(key, it) }), VerifScan(model, true, &key, true), "AscendGreaterOrEqual")
	case 7:
		verifSame(verifCollect(func(it ItemIterator) { t.AscendGreater(key, it) }), VerifScan(model, true, &key, false), "AscendGreater")
	case 8:
		verifSame(verifCollect(func(it ItemIterator) { t.DescendLessOrEqual(key, it) }), VerifScan(model, false, &key, true), "DescendLessOrEqual")
	case 9:
		verifSame(verifCollect(func(it ItemIterator) { t.DescendLess(key, it) }), VerifScan(model, false, &key, false), "DescendLess")
	case 10:
		verifSame(verifCollect(func(it ItemIterator) { t.Ascend(it) }), VerifScan(model, true, nil, true), "Ascend")
		verifSame(verifCollect(func(it ItemIterator) { t.Descend(it) }), VerifScan(model, false, nil, true), "Descend")
	case 11:
		hi := VerifKey{K: symx.Int64("hiKey")}
		symx.Assume(hi.K >= key.K && hi.K < 1<<62)
		var want []VerifKey
		for _, m := range model {
			if m.K >= key.K && m.K < hi.K {
				want = append(want, m)
			}
		}
		verifSame(verifCollect(func(it ItemIterator) { t.AscendRange(key, hi, it) }), want, "AscendRange")
	case 12:
		var want []VerifKey
		for _, m := range model {
			if m.K < key.K {
				want = append(want, m)
			}
		}
		verifSame(verifCollect(func(it ItemIterator) { t.AscendLessThan(key, it) }), want, "AscendLessThan")
	}
	VerifCheck(t, model, "after the operation")
	symx.Reach("end")
}

// C03/H2: writes to a clone are never visible in the tree it was cloned from, nor vice versa.
func VerifH_BTreeClone() {
	t, model := VerifBuild(symx.Param("degree", 2))
	c := t.Clone()
	cmodel := append([]VerifKey(nil), model...)
	apply := func(tr *BTree, m []VerifKey, name string) []VerifKey {
		key := VerifKey{K: symx.Int64(name + "Key"), Tag: symx.Int(name + "Tag")}
		symx.Assume(key.K > -(1<<62) && key.K < 1<<62)
		idx, found := verifFind(m, key.K)
		if symx.Bool(name + "Delete") {
			tr.Delete(key)
			if found {
				m = append(m[:idx:idx], m[idx+1:]...)
			}
		} else {
			tr.ReplaceOrInsert(key)
			if found {
				m = append(append(m[:idx:idx], key), m[idx+1:]...)
			} else {
				m = append(m[:idx:idx], append([]VerifKey{key}, m[idx:]...)...)
			}
		}
		return m
	}
	cmodel = apply(c, cmodel, "clone")
	VerifCheck(t, model, "original after a write to the clone")
	model = apply(t, model, "orig")
	VerifCheck(c, cmodel, "clone after a write to the original")
	VerifCheck(t, model, "original after its own write")
	if symx.Param("cloneWrites", 2) >= 3 && symx.Bool("secondCloneWrite") {
		cmodel = apply(c, cmodel, "clone2")
		VerifCheck(t, model, "original after a second write to the clone")
		VerifCheck(c, cmodel, "clone after its second write")
	}
	symx.Reach("end")
}
