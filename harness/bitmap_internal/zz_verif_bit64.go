package internal

import (
	"math/bits"

	symx "github.com/pinealctx/neptune/zzsymx"
)

type verifInt interface {
	~int8 | ~int16 | ~int32 | ~uint32 | ~int64
}

// verifWord: a 64-bit word from the window family (winPos, winBits, bg): the winBits bits starting at
// winPos are symbolic, every other bit is 0 (bg=0) or 1 (bg=1). winBits=64 makes the word fully symbolic.
func verifWord() Bit64 {
	pos, nb, bg := symx.Param("winPos", 0), symx.Param("winBits", 4), symx.Param("bg", 0)
	if nb >= 64 {
		return Bit64(symx.Uint64("word"))
	}
	var w uint64
	if bg == 1 {
		w = ^uint64(0)
	}
	mask := (uint64(1)<<uint(nb) - 1) << uint(pos)
	win := (symx.Uint64("window") << uint(pos)) & mask
	return Bit64(w&^mask | win)
}

// verifCount: the requested count n. Values in [-1, nHi] are taken one by one (concrete), the two
// unbounded classes n < -1 and n > nHi stay symbolic: together every int. nHi is chosen above the
// largest Len of the family, so every prefix length and the "more than Len" class are covered.
func verifCount() int {
	hi := symx.Param("nHi", 66)
	n := symx.Int("n")
	if n >= -1 && n <= hi {
		n = symx.Concrete(n, -1, hi)
	}
	return n
}

func verifMembers(w Bit64, reverse bool) []int {
	var m []int
	if reverse {
		for i := 63; i >= 0; i-- {
			if w&(Bit64(1)<<uint(i)) != 0 {
				m = append(m, i)
			}
		}
	} else {
		for i := 0; i < 64; i++ {
			if w&(Bit64(1)<<uint(i)) != 0 {
				m = append(m, i)
			}
		}
	}
	return m
}

// verifIter checks one iterator body against the boolean-array model:
// returns min(max(n,0), Len); slot pos+j holds the j-th member in direction order plus add;
// every other slot is untouched; no out-of-bounds access.
func verifIter[T verifInt](call func(b Bit64, s []T, pos int, add T, n int) int, reverse bool) {
	w := verifWord()
	magic := symx.Int32("sparseMagic")
	SetSparseMagic(magic)
	pos := 2 * symx.Concrete(symx.Int("posHalf"), 0, 1)
	n := verifCount()
	add := T(symx.Int64("add"))
	s := make([]T, pos+66)
	old := make([]T, len(s))
	for i := range s {
		s[i] = T(symx.Int64("old"))
		old[i] = s[i]
	}
	var ret int
	symx.NoPanic("iterator panicked", func() { ret = call(w, s, pos, add, n) })
	m := verifMembers(w, reverse)
	want := len(m)
	if n < want {
		want = n
	}
	if want < 0 {
		want = 0
	}
	want = symx.Concrete(want, 0, 64)
	symx.Assert(ret == want, "returns min(max(n,0), Len)")
	symx.Assert(w.Len() == len(m), "Len counts the members")
	for j := 0; j < len(s); j++ {
		if j >= pos && j < pos+want {
			symx.Assert(s[j] == T(m[j-pos])+add, "slot holds the j-th member plus add")
		} else {
			symx.Assert(s[j] == old[j], "slots outside [pos, pos+count) untouched")
		}
	}
	symx.Reach("end")
}

func VerifH_IterAsI64() { verifIter(func(b Bit64, s []int64, p int, a int64, n int) int { return b.IterAsI64(s, p, a, n) }, false) }
func VerifH_IterAsI32() { verifIter(func(b Bit64, s []int32, p int, a int32, n int) int { return b.IterAsI32(s, p, a, n) }, false) }
func VerifH_IterAsU32() { verifIter(func(b Bit64, s []uint32, p int, a uint32, n int) int { return b.IterAsU32(s, p, a, n) }, false) }
func VerifH_IterAsI16() { verifIter(func(b Bit64, s []int16, p int, a int16, n int) int { return b.IterAsI16(s, p, a, n) }, false) }
func VerifH_IterAsI8()  { verifIter(func(b Bit64, s []int8, p int, a int8, n int) int { return b.IterAsI8(s, p, a, n) }, false) }
func VerifH_RIterAsI64() { verifIter(func(b Bit64, s []int64, p int, a int64, n int) int { return b.RIterAsI64(s, p, a, n) }, true) }
func VerifH_RIterAsI32() { verifIter(func(b Bit64, s []int32, p int, a int32, n int) int { return b.RIterAsI32(s, p, a, n) }, true) }
func VerifH_RIterAsU32() { verifIter(func(b Bit64, s []uint32, p int, a uint32, n int) int { return b.RIterAsU32(s, p, a, n) }, true) }
func VerifH_RIterAsI16() { verifIter(func(b Bit64, s []int16, p int, a int16, n int) int { return b.RIterAsI16(s, p, a, n) }, true) }
func VerifH_RIterAsI8()  { verifIter(func(b Bit64, s []int8, p int, a int8, n int) int { return b.RIterAsI8(s, p, a, n) }, true) }

// GetNAs* wrappers: first n members, nil when nothing was taken; n in [0, 66].
func verifGetN[T verifInt](call func(b Bit64, n int) []T, reverse bool) {
	w := verifWord()
	SetSparseMagic(symx.Int32("sparseMagic"))
	n := symx.Int("n")
	hi := symx.Param("nHi", 66)
	symx.Assume(n >= 0 && n <= hi) // negative n makes make() panic: precondition; n > Len+1 behaves as Len+1
	n = symx.Concrete(n, 0, hi)
	var r []T
	symx.NoPanic("GetNAs panicked", func() { r = call(w, n) })
	m := verifMembers(w, reverse)
	want := len(m)
	if n < want {
		want = n
	}
	symx.Assert(len(r) == want, "length = min(n, Len)")
	symx.Assert((r == nil) == (want == 0), "nil exactly when empty")
	for j := 0; j < want; j++ {
		symx.Assert(r[j] == T(m[j]), "j-th member in direction order")
	}
	symx.Reach("end")
}

func VerifH_GetNAsI64()  { verifGetN(func(b Bit64, n int) []int64 { return b.GetNAsI64(n) }, false) }
func VerifH_GetNAsI32()  { verifGetN(func(b Bit64, n int) []int32 { return b.GetNAsI32(n) }, false) }
func VerifH_GetNAsI16()  { verifGetN(func(b Bit64, n int) []int16 { return b.GetNAsI16(n) }, false) }
func VerifH_GetNAsI8()   { verifGetN(func(b Bit64, n int) []int8 { return b.GetNAsI8(n) }, false) }
func VerifH_RGetNAsI64() { verifGetN(func(b Bit64, n int) []int64 { return b.RGetNAsI64(n) }, true) }
func VerifH_RGetNAsI32() { verifGetN(func(b Bit64, n int) []int32 { return b.RGetNAsI32(n) }, true) }
func VerifH_RGetNAsI16() { verifGetN(func(b Bit64, n int) []int16 { return b.RGetNAsI16(n) }, true) }
func VerifH_RGetNAsI8()  { verifGetN(func(b Bit64, n int) []int8 { return b.RGetNAsI8(n) }, true) }

// C08/H1 (64-bit layer): set algebra over all 2^64 words and all byte indices.
func VerifH_Algebra64() {
	w, c := Bit64(symx.Uint64("w")), Bit64(symx.Uint64("c"))
	i := symx.Uint8("i")
	j := symx.Uint8("j")
	symx.Assume(j <= 63)
	has := func(x Bit64, k byte) bool { return uint64(x)>>k&1 == 1 }
	s := w
	s.Set(i)
	u := w
	u.Unset(i)
	if i <= 63 {
		symx.Assert(has(s, i) && !has(u, i), "Set/Unset change membership of the index")
		if j != i {
			symx.Assert(has(s, j) == has(w, j) && has(u, j) == has(w, j), "and of no other index")
		}
	} else {
		symx.Assert(s == w && u == w, "out-of-range index ignored")
	}
	// Len against the standard library's population count (popcount-as-a-sum over 64 free bits does
	// not solve; the window-family iterator harnesses check Len against an explicit member list)
	cnt := bits.OnesCount64(uint64(w))
	symx.Assert(w.Len() == cnt && w.NLen() == 64-cnt, "Len/NLen count members and non-members")
	symx.Assert(w.Full() == (w == ^Bit64(0)), "Full iff every bit is set")
	if w.Full() {
		symx.Assert(w.Len() == 64, "a full word has 64 members")
	}
	symx.Assert(has(w.Reverse(), j) == !has(w, j), "Reverse is complement")
	symx.Assert(has(w.And(c), j) == (has(w, j) && has(c, j)), "And is intersection")
	symx.Assert(has(w.Or(c), j) == (has(w, j) || has(c, j)), "Or is union")
	symx.Reach("end")
}
