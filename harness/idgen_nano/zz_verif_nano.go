package nano

import (
	"math"
	"time"

	symx "github.com/pinealctx/neptune/zzsymx"
)

// C06/H4: one GenIDByTS step from an arbitrary generator state.
func VerifH_GenIDByTS() {
	cur, ts := symx.Int64("cur"), symx.Int64("ts")
	symx.Assume(cur < math.MaxInt64) // stated bound: no overflow at the end of time
	n := NewUnixNanoID(cur)
	id := n.GenIDByTS(ts)
	symx.Assert(id > cur, "strictly above the last id")
	symx.Assert(id >= ts, "never before the clock")
	symx.Assert(n.current == id, "state closes the induction")
	symx.Reach("end")
}

func VerifH_GenIDByTSNoLock() {
	cur, ts := symx.Int64("cur"), symx.Int64("ts")
	symx.Assume(cur < math.MaxInt64)
	n := NewUnixNanoNoLockID(cur)
	id := n.GenIDByTS(ts)
	symx.Assert(id > cur, "strictly above the last id")
	symx.Assert(id >= ts, "never before the clock")
	symx.Assert(n.current == id, "state closes the induction")
	symx.Reach("end")
}

// C06/H5: two goroutines, two ids each: all distinct, per-goroutine increasing.
func VerifH_GenConcurrent() {
	cur := symx.Int64("cur")
	symx.Assume(cur < math.MaxInt64-8)
	n := NewUnixNanoID(cur)
	var a1, a2, b1, b2 int64
	ta1, ta2, tb1, tb2 := symx.Int64("ta1"), symx.Int64("ta2"), symx.Int64("tb1"), symx.Int64("tb2")
	symx.Assume(ta1 < math.MaxInt64-8 && ta2 < math.MaxInt64-8 && tb1 < math.MaxInt64-8 && tb2 < math.MaxInt64-8)
	symx.Go("A", func() { a1 = n.GenIDByTS(ta1); a2 = n.GenIDByTS(ta2) })
	symx.Go("B", func() { b1 = n.GenIDByTS(tb1); b2 = n.GenIDByTS(tb2) })
	symx.WaitQuiescent()
	symx.Assert(a2 > a1 && b2 > b1, "per-goroutine increasing")
	symx.Assert(a1 != b1 && a1 != b2 && a2 != b1 && a2 != b2, "distinct across goroutines")
	symx.Assert(a1 > cur && b1 > cur, "above the seed")
	symx.Reach("end")
}

// C06/H5b: the clock-reading entry point under concurrency: two goroutines calling GenID (one of them
// also GenIDByTS) on one generator; the seed and every clock reading come from a small menu of instants
// (behind, at and ahead of the seed - the arithmetic itself is the step lemma's business): all ids
// distinct, per-goroutine increasing, above the seed; every interleaving, race monitor.
func VerifH_GenIDConcurrent() {
	cur := int64(1000)
	n := NewUnixNanoID(cur)
	var a1, a2, b1, b2 int64
	menu := []int64{500, 1000, 1001, 1500}
	tb := menu[symx.Concrete(symx.Int("tb"), 0, len(menu)-1)]
	symx.Stub("time.Now", func() time.Time {
		return time.Unix(0, menu[symx.Concrete(symx.Int("clock"), 0, len(menu)-1)])
	})
	symx.Go("A", func() { a1 = n.GenID(); a2 = n.GenID() })
	symx.Go("B", func() { b1 = n.GenID(); b2 = n.GenIDByTS(tb) })
	symx.WaitQuiescent()
	symx.Assert(a2 > a1 && b2 > b1, "per-goroutine increasing")
	symx.Assert(a1 != b1 && a1 != b2 && a2 != b1 && a2 != b2, "distinct across goroutines")
	symx.Assert(a1 > cur && b1 > cur, "above the seed")
	symx.Reach("end")
}
