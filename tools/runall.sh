#!/bin/sh
# runs every claimed check's quick (or $1) tier and prints one line each
cd "$(dirname "$0")/.."
tier=${1:-quick}
mkdir -p out
for f in checks/C*.json; do
  id=$(basename $f .json)
  s=$(date +%s)
  ./check $id $tier > out/$id.$tier.log 2>&1
  rc=$?
  echo "$id rc=$rc $(( $(date +%s)-s ))s $(grep -E '^OK|^VIOLATION|^INCONCLUSIVE|^KNOWN' out/$id.$tier.log | head -3 | cut -c1-160 | tr '\n' '|')"
done
