#!/usr/bin/env python3
"""Regenerates /verif/MANIFEST.json from /verif/checks/*.json and tools/manifest_meta.json.
A property with a checks/<ID>.json file is claimed; every other property of
properties.jsonl is listed under not_applicable with the reason from the meta file."""
import json, os, sys
root = os.path.dirname(os.path.dirname(os.path.abspath(__file__)))
meta = json.load(open(os.path.join(root, "tools", "manifest_meta.json")))
props = [json.loads(l) for l in open(os.path.join(root, "properties.jsonl"))]
checks, na = [], []
for p in props:
    pid = p["id"]
    sp = os.path.join(root, "checks", pid + ".json")
    m = meta["properties"].get(pid, {})
    if os.path.exists(sp) and not m.get("not_applicable"):
        spec = json.load(open(sp))
        checks.append({
            "property_id": pid,
            "quick_cmd": "./check %s quick" % pid,
            "thorough_cmd": "./check %s thorough" % pid,
            "evidence_file": "/verif/evidence/%s.json" % pid,
            "replay_cmd_template": "./check replay {path}",
            "engine": "symgo",
            "level_claimed": {
                "category": spec.get("level", "other"),
                "text": m.get("text", "Bounded symbolic execution of the real go/ssa of /repo with SMT-decided assertions; holds for every input/schedule within the stated bounds, nothing outside them."),
                "design_ref": m.get("design_ref", "DESIGN.md section 5, " + pid),
            },
            "level_note": "bounds (quick): %s | bounds (thorough): %s | assumptions: %s | out of scope: %s" % (
                spec["bounds"]["quick"], spec["bounds"]["thorough"], "; ".join(spec.get("assumptions", [])) or "none", "; ".join(spec.get("out_of_scope", [])) or "see DESIGN.md"),
            "technique": m.get("technique", "solver-based bounded symbolic execution of go/ssa (own engine symgo, z3 QF_BV), counterexamples replayed natively"),
        })
    else:
        na.append({"property_id": pid, "reason": m.get("reason", "check not built yet in this round (work in progress; see DESIGN.md section 7)")})
man = {
    "version": 1,
    "setup_cmd": "cd /verif && export GOFLAGS=-mod=mod GOPROXY=off GOSUMDB=off GOTOOLCHAIN=local && mkdir -p bin out evidence && (cd engine && go build -o ../bin/symgo .) && ./bin/symgo selftest",
    "hooks": {
        "guard": "verif",
        "enable": "none needed: harnesses and the symx intrinsics package are injected with go/packages Overlay (engine) and go test -overlay (native replay); /repo carries no hook commits",
        "baseline_off_cmd": "for m in $(cat /w/out/gomods.txt); do MF=$(cd /repo/$m && . /w/out/goenv.sh && gomodflag); (cd /repo/$m && go test $MF -json -vet=off -count=1 -timeout 25m ./...); done",
        "source_commits": meta.get("hook_commits", []),
        "add_only": True,
    },
    "engines": [{
        "name": "symgo",
        "path": "/verif/engine",
        "serves_properties": [c["property_id"] for c in checks],
        "kind_free_text": "path-forking symbolic executor for go/ssa (x/tools v0.29.0): hash-consed QF_BV terms, persistent z3 -in, replay-based DFS over solver-decided branches and scheduler choices, happens-before race monitor, native replay of counterexamples via go test -overlay",
    }],
    "checks": checks,
    "not_applicable": na,
    "notes": meta.get("notes", ""),
}
json.dump(man, open(os.path.join(root, "MANIFEST.json"), "w"), indent=1)
print("claimed:", [c["property_id"] for c in checks], "n/a:", [n["property_id"] for n in na])
