#!/bin/sh
# tools/seedtest.sh <ID> <worktree> <pkgdir> <check ids...> : verify a seeded change and run checks against it
export GOFLAGS=-mod=mod GOPROXY=off GOSUMDB=off GOTOOLCHAIN=local
id=$1; wt=$2; pkg=$3; shift 3
cd $wt || exit 2
echo "== demo with patch"; timeout 300 go test -vet=off -count=1 -run 'TestDemo' ./$pkg 2>&1 | tail -3
git stash -q; echo "== demo without patch"; timeout 300 go test -vet=off -count=1 -run 'TestDemo' ./$pkg 2>&1 | tail -2; git stash pop -q
echo "== existing tests with patch (demo moved aside)"
demo=$(git status --short | grep '^??' | grep _test.go | awk '{print $2}')
mkdir -p /tmp/demo_$id; for d in $demo; do mv $d /tmp/demo_$id/; done
timeout 600 go test -vet=off -count=1 ./$pkg 2>&1 | tail -2
for d in $demo; do cp /tmp/demo_$id/$(basename $d) $d; done
echo "== apply to /repo and run checks"
git -C /repo apply $wt/patch.diff || exit 2
for c in "$@"; do (cd /verif && ./check $c quick 2>&1 | grep -E "^VIOLATION|^OK|^INCONC|^KNOWN" | cut -c1-260 | head -4); done
git -C /repo checkout -- . ; git -C /repo status --short | head -3
