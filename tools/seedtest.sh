#!/bin/sh
# tools/seedtest.sh <ID> <worktree> <pkgdir> <check ids...> : verify a seeded change and run checks against it
# (no git stash: the stash is shared between the worktrees of one repository)
export GOFLAGS=-mod=mod GOPROXY=off GOSUMDB=off GOTOOLCHAIN=local
id=$1; wt=$2; pkg=$3; shift 3
cd $wt || exit 2
git checkout -q -- . ; git apply patch.diff || { echo "patch.diff does not apply"; exit 2; }
echo "== demo with patch"; timeout 300 go test -vet=off -count=1 -run 'TestDemo' ./$pkg 2>&1 | tail -3
git apply -R patch.diff; echo "== demo without patch"; timeout 300 go test -vet=off -count=1 -run 'TestDemo' ./$pkg 2>&1 | tail -2; git apply patch.diff
echo "== existing tests with patch (demo moved aside)"
demo=$(git status --short | grep '^??' | grep _test.go | awk '{print $2}')
mkdir -p /tmp/demo_$id; for d in $demo; do mv $d /tmp/demo_$id/; done
timeout 900 go test -vet=off -count=1 ${RUNFILTER:+-run "$RUNFILTER"} ./$pkg 2>&1 | tail -2
for d in $demo; do cp /tmp/demo_$id/$(basename $d) $d; done; rm -rf /tmp/demo_$id
echo "== apply to /repo and run checks"
git -C /repo apply $wt/patch.diff || exit 2
for c in "$@"; do (cd /verif && ./check $c quick > out/seed_$id.$c.log 2>&1; echo "$c rc=$?"; grep -E "^VIOLATION|^OK|^INCONC|^KNOWN" out/seed_$id.$c.log | cut -c1-260 | head -4); done
git -C /repo checkout -- . ; git -C /repo status --short | head -3
