#!/bin/sh
# thorough tier of the harnesses added or changed in rounds 8-10 (each with -only), one line per run
cd "$(dirname "$0")/.."
mkdir -p out
run() { id=$1; only=$2; s=$(date +%s); ./check $id thorough -only "$only" > out/$id.thorough_new.log 2>&1; rc=$?; echo "$id [$only] rc=$rc $(( $(date +%s)-s ))s $(grep -E '^OK|^VIOLATION|^INCONCLUSIVE' out/$id.thorough_new.log | head -2 | cut -c1-200 | tr '\n' '|')"; }
run C01 'SemCancelAlone|SemDeadContext'
run C05 'TTLSetRaces|RemoveAfterGetRace'
run C12 'Wakeups'
run C13 'Wakeups'
run C18 '.*'
run C17 'KeyLock|Sem|ReMapConcurrent|SearchIndex|TinyWide'
run C03 'TreeUpdateAtomic|TreeLargeScan|TreeConcurrent'
run C09 'BlocksFromData'
run C10 'StreamEqualsBuffer'
run C20 'RTJsByte'
run C19 'LongRuns'
run C07 'CnStyleRoundTrip'
run C02 'KeyLockMixed'
run C14 'DeadContext|MultiLineCancel|StopPlacement|StopInside'
run C15 'MuxSaturated|MuxGroupSerial'
run C16 'SessionEndsOnce'
run C04 'TinyWide|LRUConcurrent|TwoSets'
run C19 'VCodeHistory'
run C11 'Differential'
