#!/bin/sh
# thorough tier of the harnesses added or changed in rounds 8-11 (each with -only), one line per run
cd "$(dirname "$0")/.."
mkdir -p out
run() { id=$1; only=$2; s=$(date +%s); ./check $id thorough -only "$only" > out/$id.thorough_new.log 2>&1; rc=$?; echo "$id [$only] rc=$rc $(( $(date +%s)-s ))s $(grep -E '^OK|^VIOLATION|^INCONCLUSIVE' out/$id.thorough_new.log | head -2 | cut -c1-200 | tr '\n' '|')"; }
run C01 'SemCancelAlone|SemDeadContext|SemRatioPerMap'
run C05 'TTLSetRaces|RemoveAfterGetRace|ValuesIndependent'
run C06 'GenIDConcurrent'
run C08 'AlgebraIndependent'
run C12 'Wakeups|QHistory'
run C18 '.*'
run C20 'TokBase64|RTJsByte'
run C19 'LongRuns'
run C09 'BlocksFromData'
run C03 'TreeLargeScan'
run C17 'KeyLock|Sem|ReMap|SearchIndex|XHashIndex'
run C02 'KeyLockMixed|MultiLengths|GroupOrder'
run C13 'Wakeups'
run C07 'TimeRangesInZones'
run C14 'DeadContext|MultiLineCancel|StopPlacement|StopInside'
run C15 'MuxSaturated|MuxGroupRouting'
run C15 'MuxGroupSerial'
run C04 'TinyWide|LRUConcurrent|TwoSets|SameObjectResized'
run C19 'VCodeHistory'
run C01 'Sem(Exclusion|FIFO|Cancel|Keys|HoldersKeepEntry)'
run C11 'Differential'
