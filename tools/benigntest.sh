#!/bin/sh
# tools/benigntest.sh <worktree> <pkgdir> <check ids...> : a behaviour-preserving change must leave every check at exit 0
export GOFLAGS=-mod=mod GOPROXY=off GOSUMDB=off GOTOOLCHAIN=local
wt=$1; pkg=$2; shift 2
cd $wt || exit 2
echo "== equivalence test with patch"; timeout 300 go test -vet=off -count=1 -run 'TestEquiv' ./$pkg 2>&1 | grep -v '"level"' | tail -2
git diff --stat -- . ':(exclude)*_test.go' | tail -1
echo "== apply to /repo and run checks"
git -C /repo apply $wt/patch.diff || exit 2
for c in "$@"; do (cd /verif && ./check $c quick > out/benign_$c.log 2>&1; echo "$c rc=$?"; grep -E "^VIOLATION|^OK|^INCONC|^KNOWN" out/benign_$c.log | cut -c1-300 | head -4); done
git -C /repo checkout -- . ; git -C /repo status --short | head -3
