#!/usr/bin/env python3
"""keepseed.py <seed-id> <property> <worktree> <detected-by> <needs> : archive a confirmed seeded change under /verif/seeded/<seed-id>/"""
import sys, os, json, shutil, subprocess, glob
sid, prop, wt, detected, needs = sys.argv[1:6]
dst = os.path.join('/verif/seeded', sid)
os.makedirs(dst, exist_ok=True)
shutil.copy(os.path.join(wt, 'patch.diff'), os.path.join(dst, 'patch.diff'))
out = subprocess.check_output(['git', '-C', wt, 'status', '--short']).decode()
demos = [l.split()[1] for l in out.splitlines() if l.startswith('??') and l.strip().endswith('_test.go')]
for d in demos:
    shutil.copy(os.path.join(wt, d), os.path.join(dst, os.path.basename(d) + '.txt'))
meta = {
    "seed": sid, "property": prop, "base_commit": subprocess.check_output(['git', '-C', wt, 'rev-parse', '--short', 'HEAD']).decode().strip(),
    "files_changed": [l.split()[1] for l in out.splitlines() if l.startswith(' M')],
    "demo": [{"path_in_repo": d, "archived_as": os.path.basename(d) + '.txt'} for d in demos],
    "needs_to_manifest": needs,
    "verified": "in the scratch worktree: existing tests of the package pass with the patch (demo moved aside), demo fails with the patch and passes without; then applied to /repo (git apply), checks run, reverted (git checkout -- .)",
    "detected_by": detected,
}
json.dump(meta, open(os.path.join(dst, 'meta.json'), 'w'), indent=1)
print('archived', sid, demos)
