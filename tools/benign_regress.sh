#!/bin/sh
# re-runs every archived behaviour-preserving change against the current quick checks: all must stay at exit 0
cd "$(dirname "$0")/.."
for d in seeded/benign-*; do
  id=$(basename $d | sed 's/benign-//')
  git -C /repo apply $(pwd)/$d/patch.diff || { echo "$id patch does not apply"; continue; }
  s=$(date +%s); ./check $id quick > out/benignre_$id.log 2>&1; rc=$?
  git -C /repo checkout -- .
  echo "$id rc=$rc $(( $(date +%s)-s ))s $(grep -E '^VIOLATION|^INCONCLUSIVE' out/benignre_$id.log | head -2 | cut -c1-220 | tr '\n' '|')"
done
