#!/bin/sh
# tools/oldcheck.sh <check-id> <only-regexp> <patch.diff> <harness files relative to /verif ...>
# runs the check with the COMMITTED (HEAD) version of the given harness files against a seeded snapshot
# (/tmp/wt/clean + patch), to tell whether the checks as committed would have caught the change.
id=$1; only=$2; patch=$3; shift 3
cd /verif
for f in "$@"; do cp $f /tmp/oldcheck_$(echo $f | tr '/' '_'); git show HEAD:$f > $f; done
(cd /tmp/wt/clean && git checkout -q -- . && git apply $patch)
VERIF_REPO=/tmp/wt/clean ./check $id quick -only "$only" 2>&1 | grep -E "^VIOLATION|^OK|^INCONC" | head -3 | cut -c1-250
git -C /tmp/wt/clean checkout -q -- .
for f in "$@"; do cp /tmp/oldcheck_$(echo $f | tr '/' '_') $f; done
