// Package zzsymx is the harness vocabulary of the /verif checks.
//
// The symbolic engine (/verif/engine) intercepts every call into this package
// and never runs the bodies below. The bodies are the *native* flavour: they
// replay one concrete assignment (file named by $SYMX_REPLAY, lines
// "name=value") so that the identical harness can be run against the natively
// compiled tree to confirm a counterexample found by the solver.
package zzsymx

import (
	"math"
	"sync/atomic"
	"fmt"
	"os"
	"runtime"
	"strconv"
	"strings"
	"sync"
	"time"
)

type ThreadID int

type stop struct{ why string }

var (
	mu       sync.Mutex
	vals     map[string]string
	seq      map[string]int
	violated []string
	observed []string
	threads  []*thr
)

type thr struct {
	name string
	done bool
}

func load() {
	vals = map[string]string{}
	seq = map[string]int{}
	violated, observed, threads = nil, nil, nil
	p := os.Getenv("SYMX_REPLAY")
	if p == "" {
		return
	}
	b, err := os.ReadFile(p)
	if err != nil {
		return
	}
	for _, l := range strings.Split(string(b), "\n") {
		if i := strings.IndexByte(l, '='); i > 0 {
			vals[l[:i]] = l[i+1:]
		}
	}
}

func key(name string) string {
	mu.Lock()
	defer mu.Unlock()
	if seq == nil {
		load()
	}
	seq[name]++
	if k := seq[name]; k > 1 {
		return fmt.Sprintf("%s#%d", name, k)
	}
	return name
}

func geti(name string) int64 {
	k := key(name)
	v, _ := strconv.ParseInt(vals[k], 10, 64)
	return v
}
func getu(name string) uint64 {
	k := key(name)
	v, _ := strconv.ParseUint(vals[k], 10, 64)
	return v
}

func Bool(name string) bool     { return vals[key(name)] == "true" }
func Int(name string) int       { return int(geti(name)) }
func Int8(name string) int8     { return int8(geti(name)) }
func Int16(name string) int16   { return int16(geti(name)) }
func Int32(name string) int32   { return int32(geti(name)) }
func Int64(name string) int64   { return geti(name) }
func Uint(name string) uint     { return uint(getu(name)) }
func Uint8(name string) uint8   { return uint8(getu(name)) }
func Uint16(name string) uint16 { return uint16(getu(name)) }
func Uint32(name string) uint32 { return uint32(getu(name)) }
func Uint64(name string) uint64 { return getu(name) }

// Float64Bits returns a float64 with an arbitrary bit pattern.
func Float64Bits(name string) float64 { return math.Float64frombits(getu(name)) }

// Range returns an int in [lo,hi].
func Range(name string, lo, hi int) int {
	v := int(geti(name))
	Assume(lo <= v && v <= hi)
	return v
}

// Bytes returns n bytes with arbitrary contents.
func Bytes(name string, n int) []byte {
	b := make([]byte, n)
	for i := range b {
		b[i] = Uint8(fmt.Sprintf("%s[%d]", name, i))
	}
	return b
}

func String(name string, n int) string { return string(Bytes(name, n)) }

// OneOf returns a byte constrained to the given alphabet (no forking in the engine).
func OneOf(name string, alphabet string) byte {
	v := Uint8(name)
	Assume(strings.IndexByte(alphabet, v) >= 0)
	return v
}

// Param is a concrete tier parameter (bound) of the harness.
func Param(name string, def int) int {
	mu.Lock()
	if seq == nil {
		load()
	}
	mu.Unlock()
	if s, ok := vals["param."+name]; ok {
		v, _ := strconv.Atoi(s)
		return v
	}
	return def
}

func Assume(cond bool) {
	if !cond {
		panic(stop{"assume"})
	}
}

func Assert(cond bool, label string) {
	if !cond {
		mu.Lock()
		violated = append(violated, "assert: "+label)
		mu.Unlock()
		panic(stop{"assert"})
	}
}

func Reach(label string)          {}
func Sat(cond bool, label string) {}
func Known(id string, cond bool)  {}
func Unwind(n int)                {}
func MapOrderAll()                {}

// ForkIndex(true): from here on a symbolic slice/array index is split into one path per feasible
// value instead of being expanded into an if-then-else over all elements (engine hint, no semantics).
func ForkIndex(on bool) {}

// Stub redirects calls of the named function (e.g. "time.Since") to f for the rest of the
// path. Engine only: natively there is nothing to hook, so harnesses that use it are
// confirmed by concrete re-execution inside the engine, not by native replay.
func Stub(name string, f any) {}

// Concrete pins a symbolic int to each feasible value in [lo,hi] (engine: forks).
func Concrete(v int, lo, hi int) int { Assume(lo <= v && v <= hi); return v }

func NoPanic(label string, f func()) {
	defer func() {
		if r := recover(); r != nil {
			if s, ok := r.(stop); ok {
				panic(s)
			}
			mu.Lock()
			violated = append(violated, fmt.Sprintf("panic: %s: %v", label, r))
			mu.Unlock()
			panic(stop{"assert"})
		}
	}()
	f()
}

func Panics(f func()) (p bool) {
	defer func() {
		if r := recover(); r != nil {
			if s, ok := r.(stop); ok {
				panic(s)
			}
			p = true
		}
	}()
	f()
	return false
}

func PanicValue(f func()) (v any) {
	defer func() {
		if r := recover(); r != nil {
			if s, ok := r.(stop); ok {
				panic(s)
			}
			v = r
		}
	}()
	f()
	return nil
}

func Observe(name string, v any) {
	mu.Lock()
	observed = append(observed, fmt.Sprintf("%s=%s", name, obs(v)))
	mu.Unlock()
}

func obs(v any) string {
	switch x := v.(type) {
	case nil:
		return "<nil>"
	case bool:
		return strconv.FormatBool(x)
	case int:
		return strconv.FormatUint(uint64(x), 10)
	case int8:
		return strconv.FormatUint(uint64(uint8(x)), 10)
	case int16:
		return strconv.FormatUint(uint64(uint16(x)), 10)
	case int32:
		return strconv.FormatUint(uint64(uint32(x)), 10)
	case int64:
		return strconv.FormatUint(uint64(x), 10)
	case uint:
		return strconv.FormatUint(uint64(x), 10)
	case uint8:
		return strconv.FormatUint(uint64(x), 10)
	case uint16:
		return strconv.FormatUint(uint64(x), 10)
	case uint32:
		return strconv.FormatUint(uint64(x), 10)
	case uint64:
		return strconv.FormatUint(x, 10)
	case uintptr:
		return strconv.FormatUint(uint64(x), 10)
	case string:
		return strconv.Quote(x)
	case []byte:
		parts := make([]string, len(x))
		for i, b := range x {
			parts[i] = strconv.Itoa(int(b))
		}
		return "[" + strings.Join(parts, " ") + "]"
	}
	return fmt.Sprintf("%T", v)
}

func NewError(msg string) error { return fmt.Errorf("%s", msg) }

// ---------------------------------------------------------------------------
// threads (native flavour: best effort, used only for replay)

func Go(name string, f func()) ThreadID {
	mu.Lock()
	t := &thr{name: name}
	threads = append(threads, t)
	id := ThreadID(len(threads))
	mu.Unlock()
	go func() {
		defer func() {
			mu.Lock()
			t.done = true
			mu.Unlock()
			if r := recover(); r != nil {
				if _, ok := r.(stop); ok {
					return
				}
				mu.Lock()
				violated = append(violated, fmt.Sprintf("panic: goroutine %s: %v", name, r))
				mu.Unlock()
			}
		}()
		f()
	}()
	return id
}

// WaitQuiescent waits until every harness goroutine has finished or has been
// parked (not runnable) for a while.
func WaitQuiescent() {
	stable := 0
	for i := 0; i < 2000 && stable < 5; i++ {
		time.Sleep(2 * time.Millisecond)
		if quiescent() {
			stable++
		} else {
			stable = 0
		}
	}
}

func quiescent() bool {
	buf := make([]byte, 1<<20)
	n := runtime.Stack(buf, true)
	for _, g := range strings.Split(string(buf[:n]), "\n\n") {
		hdr, _, _ := strings.Cut(g, "\n")
		if !strings.Contains(g, "zzsymx.Go.func1") {
			continue
		}
		if strings.Contains(hdr, "[running]") || strings.Contains(hdr, "[runnable]") || strings.Contains(hdr, "[sleep]") {
			return false
		}
	}
	return true
}

func Done(t ThreadID) bool {
	mu.Lock()
	defer mu.Unlock()
	return threads[int(t)-1].done
}
func Blocked(t ThreadID) bool { return !Done(t) }
func MustFinish(t ThreadID, label string) {
	if !Done(t) {
		mu.Lock()
		violated = append(violated, "blocked: "+label)
		mu.Unlock()
	}
}
// GhostAdd/GhostLoad: monitor counters of a harness (engine: instantaneous, no scheduling point).
func GhostAdd(p *int64, d int64) int64 { return atomic.AddInt64(p, d) }
func GhostLoad(p *int64) int64         { return atomic.LoadInt64(p) }

// YieldOn(p): scheduling point declaring that the code up to the next scheduling point touches the
// harness monitor p (and no other monitor).
func YieldOn(p any) { runtime.Gosched() }

// OthersDone reports whether every other goroutine of the program has finished (engine: exact;
// natively: every goroutine started with symx.Go).
func OthersDone() bool {
	mu.Lock()
	defer mu.Unlock()
	for _, t := range threads {
		if !t.done {
			return false
		}
	}
	return true
}

func Yield()                                             { runtime.Gosched() }
func MutexHeld(m *sync.Mutex) bool                       { if m.TryLock() { m.Unlock(); return false }; return true }
func RWMutexState(m *sync.RWMutex) (writer bool, readers int) {
	if m.TryLock() {
		m.Unlock()
		return false, 0
	}
	if m.TryRLock() {
		m.RUnlock()
		return false, 1
	}
	return true, 0
}

// RunNative runs a harness natively under the assignment in $SYMX_REPLAY and
// returns "ok", "assume-failed" or "violated: <what>"; observed holds the
// Observe trace.
func RunNative(h func()) (result string, obsv []string) {
	mu.Lock()
	load()
	mu.Unlock()
	func() {
		defer func() {
			if r := recover(); r != nil {
				if s, ok := r.(stop); ok {
					if s.why == "assume" {
						mu.Lock()
						if len(violated) == 0 {
							violated = append(violated, "ASSUME")
						}
						mu.Unlock()
					}
					return
				}
				mu.Lock()
				violated = append(violated, fmt.Sprintf("panic: uncaught: %v", r))
				mu.Unlock()
			}
		}()
		h()
	}()
	mu.Lock()
	defer mu.Unlock()
	if len(violated) == 0 {
		return "ok", observed
	}
	if violated[0] == "ASSUME" {
		return "assume-failed", observed
	}
	return "violated: " + strings.Join(violated, "; "), observed
}
